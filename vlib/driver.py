"""Driver shared by all checks: build, run the harness parts, merge their reports,
match violations against KNOWN_FINDINGS.txt, write replay + evidence files.

exit 0  property held on everything explored (KNOWN-FINDING lines possible)
exit 1  VIOLATION property=<id> replay=<path>
exit 2  machinery error (build failure, harness crash, timeout) - never a verdict
"""
import json, os, subprocess, sys, time, hashlib, shutil

ROOT = os.path.dirname(os.path.dirname(os.path.abspath(__file__)))
BUILD = os.path.join(ROOT, "build")
OUT = os.path.join(BUILD, "out")
ENGINES = os.path.join(ROOT, "engines")
TARGET = os.path.join(BUILD, "target")
KNOWN = os.path.join(ROOT, "KNOWN_FINDINGS.txt")


def log(*a):
    print("[check]", *a, file=sys.stderr, flush=True)


class MachineryError(Exception):
    pass


def cargo_env(extra=None):
    env = dict(os.environ)
    env["CARGO_NET_OFFLINE"] = "true"
    env["CARGO_TARGET_DIR"] = TARGET
    env["RUST_BACKTRACE"] = "0"
    env.setdefault("CARGO_TERM_COLOR", "never")
    if extra:
        env.update(extra)
    return env


def cargo_build(workdir, args, env=None, timeout=3600):
    cmd = ["cargo", "build", "--offline"] + args
    t0 = time.time()
    p = subprocess.run(cmd, cwd=workdir, env=cargo_env(env), stdout=subprocess.PIPE, stderr=subprocess.STDOUT, text=True, timeout=timeout)
    if p.returncode != 0:
        tail = "\n".join(l for l in p.stdout.splitlines() if not l.startswith("warning") and not l.startswith("{"))[-6000:]
        if "--message-format=json" in args:
            rendered = []
            for l in p.stdout.splitlines():
                if l.startswith("{") and '"level":"error"' in l:
                    try:
                        rendered.append(json.loads(l)["message"].get("rendered", ""))
                    except (ValueError, KeyError):
                        pass
            tail = ("\n".join(rendered))[-6000:] + "\n" + tail
        e = MachineryError("cargo build failed in %s: %s\n%s" % (workdir, " ".join(cmd), tail))
        e.full_output = p.stdout
        raise e
    log("built %s in %.1fs" % (" ".join(args), time.time() - t0))
    return p.stdout


def run_part(name, argv, tier, seed, env=None, timeout=7200, cwd=None):
    os.makedirs(OUT, exist_ok=True)
    out = os.path.join(OUT, name + ".json")
    if os.path.exists(out):
        os.remove(out)
    e = dict(os.environ)
    e.update({"VERIF_OUT": out, "VERIF_TIER": tier, "VERIF_SEED": str(seed), "RUST_BACKTRACE": "0"})
    if env:
        e.update(env)
    t0 = time.time()
    # harness output goes to files (a harness that floods its output must not exhaust the driver's memory)
    errp = os.path.join(OUT, name + ".stderr")
    try:
        with open(os.path.join(OUT, name + ".stdout"), "wb") as fo, open(errp, "wb") as fe:
            p = subprocess.run(argv, cwd=cwd or ROOT, env=e, stdout=fo, stderr=fe, timeout=timeout)
    except subprocess.TimeoutExpired:
        raise MachineryError("part %s exceeded its wall cap of %ss" % (name, timeout))
    def tail(path, n=3000):
        try:
            with open(path, "rb") as f:
                f.seek(0, 2); size = f.tell(); f.seek(max(0, size - n))
                return f.read().decode("utf-8", "replace")
        except OSError:
            return ""
    if p.returncode not in (0, 1) or not os.path.exists(out):
        raise MachineryError("part %s: harness exited %s without a verdict\nstderr tail:\n%s" % (name, p.returncode, tail(errp)))
    for suffix in (".stdout", ".stderr"):
        try: os.remove(os.path.join(OUT, name + suffix))
        except OSError: pass
    with open(out) as f:
        rep = json.load(f)
    if rep.get("machinery_errors"):
        raise MachineryError("part %s: %s" % (name, "; ".join(rep["machinery_errors"][:5])))
    if os.environ.get("VERIF_VERBOSE") or not name[-3:-2] == "s" or name.endswith("s00"):
        log("part %s: %.1fs states=%s transitions=%s violations=%s" % (name, time.time() - t0, rep.get("states"), rep.get("transitions"), rep.get("violation_total")))
    return rep


def merge(reports):
    m = {"states": 0, "transitions": 0, "executions": 0, "evaluations": 0, "nontrivial": 0, "exhaustive": True,
         "caps_hit": [], "samples": [], "extras": {}, "violations": [], "violation_total": 0, "sig_counts": {}, "rules": [], "parts": []}
    for r in reports:
        for k in ("states", "transitions", "executions", "evaluations", "nontrivial", "violation_total"):
            m[k] += int(r.get(k, 0))
        m["exhaustive"] = m["exhaustive"] and bool(r.get("exhaustive", True))
        m["caps_hit"] += ["%s: %s" % (r.get("part", "?"), c) for c in r.get("caps_hit", [])]
        m["samples"] += r.get("samples", [])[:4]
        part = r.get("part", "?")
        m["parts"].append({"part": part, "states": r.get("states", 0), "transitions": r.get("transitions", 0), "wall_s": round(r.get("wall_s", 0), 3)})
        for k, v in r.get("extras", {}).items():
            m["extras"]["%s.%s" % (part, k)] = v
        m["violations"] += r.get("violations", [])
        for s, c in r.get("sig_counts", {}).items():
            m["sig_counts"][s] = m["sig_counts"].get(s, 0) + c
        if r.get("rule"):
            m["rules"].append("%s: %s" % (part, r["rule"]))
    return m


def load_known():
    known, fixed = {}, []
    if os.path.exists(KNOWN):
        for line in open(KNOWN):
            line = line.strip()
            if line.startswith("known:"):
                # known: property=<id> key=<sig> <what fails>
                rest = line[len("known:"):].strip()
                parts = rest.split(None, 2)
                prop = parts[0].split("=", 1)[1]
                key = parts[1].split("=", 1)[1]
                known[(prop, key)] = parts[2] if len(parts) > 2 else ""
            elif line.startswith("fixed:"):
                fixed.append(line)
    return known, fixed


def finish(prop, tier, seed, merged, t0, level_note, assumptions, technique):
    known, _ = load_known()
    os.makedirs(os.path.join(ROOT, "replays"), exist_ok=True)
    os.makedirs(os.path.join(ROOT, "evidence"), exist_ok=True)
    first = {}
    for v in merged["violations"]:
        first.setdefault(v["sig"], v)
    new, matched = [], []
    for sig in sorted(merged["sig_counts"]):
        if (prop, sig) in known:
            matched.append(sig)
        else:
            new.append(sig)
    for sig in matched:
        print("KNOWN-FINDING: property=%s %s [key=%s, %d cases this run]" % (prop, known[(prop, sig)], sig, merged["sig_counts"][sig]))
    n = 0
    for sig in new:
        v = first.get(sig, {"sig": sig, "desc": "(details dropped: over the per-run cap)", "replay": None})
        h = hashlib.sha1(sig.encode()).hexdigest()[:8]
        path = os.path.join(ROOT, "replays", "%s-%s.json" % (prop, h))
        with open(path, "w") as f:
            json.dump({"property": prop, "sig": sig, "desc": v["desc"], "cases_this_run": merged["sig_counts"][sig], "replay": v["replay"]}, f, indent=1)
        if n < 6:
            print("VIOLATION property=%s replay=%s" % (prop, path))
            print("  %s" % v["desc"][:500])
        n += 1
    if n > 6:
        print("(+%d more distinct violation signatures; replay files under %s)" % (n - 6, os.path.join(ROOT, "replays")))
    samples = merged["samples"][:8] or [{"note": "no sample recorded"}]
    cov = {
        "states": max(merged["states"], 0),
        "transitions": max(merged["transitions"], 0),
        "traces_validated_against_impl": merged["executions"],
        "samples": samples,
        "evaluations": merged["evaluations"],
        "distinct_nontrivial": merged["nontrivial"],
        "rule": " | ".join(merged["rules"]),
        "exhaustive": merged["exhaustive"],
        "caps_hit": merged["caps_hit"],
        "parts": merged["parts"],
        "known_findings_matched": matched,
        "technique": technique,
        "explanation": "every explored trace is an execution of the real code built from /repo's working tree; no separate model exists, so traces_validated_against_impl = executions",
    }
    cov.update({k: v for k, v in merged["extras"].items()})
    ev = {"property_id": prop, "tier": tier, "seed": seed, "level": "model_checking", "coverage": cov,
          "assumptions": assumptions, "wall_s": round(time.time() - t0, 2), "violations": n}
    with open(os.path.join(ROOT, "evidence", prop + ".json"), "w") as f:
        json.dump(ev, f, indent=1)
    log("%s %s: states=%d transitions=%d executions=%d new_violation_sigs=%d known=%d wall=%.1fs" % (
        prop, tier, cov["states"], cov["transitions"], merged["executions"], n, len(matched), time.time() - t0))
    return 1 if n else 0


def main(argv):
    import argparse
    ap = argparse.ArgumentParser()
    ap.add_argument("prop")
    ap.add_argument("--tier", default=os.environ.get("VERIF_TIER", "quick"), choices=["quick", "thorough"])
    ap.add_argument("--replay", default=None)
    a = ap.parse_args(argv)
    seed = int(os.environ.get("VERIF_SEED", "0") or 0)
    t0 = time.time()
    from vlib import props
    try:
        spec = props.SPECS[a.prop]
    except KeyError:
        print("unknown property", a.prop, file=sys.stderr)
        return 2
    try:
        if a.replay:
            return spec["replay"](a.prop, a.replay, a.tier, seed)
        reports = spec["run"](a.prop, a.tier, seed)
        merged = merge(reports)
        return finish(a.prop, a.tier, seed, merged, t0, spec.get("level_note", ""), spec.get("assumptions", []), spec.get("technique", ""))
    except MachineryError as e:
        print("MACHINERY-ERROR property=%s %s" % (a.prop, e), file=sys.stderr)
        return 2

"""Writes MANIFEST.json from the table below (kept in one place so it stays valid)."""
import json, os, subprocess
ROOT = os.path.dirname(os.path.dirname(os.path.abspath(__file__)))

CHECKS = {
    "C01": ("P progcheck", "bounded-exhaustive enumeration of programs (compiled by the real macros through rustc) x all input databases, compared with a naive reference evaluator",
            "Families F-shape (every rule body of <= 2 clauses over unary/binary relations with every bound/free/repeated/constant/wildcard argument pattern, plus if / let / if-let / for items attached or separate, in a recursive context) and F-scc (all dependency skeletons of <= 3 rules over <= 3 derived relations up to renaming, multi-head rules); every program is run on all 4096 databases over {0,1} (F-scc: all databases with <= 4 facts) with facts in every relation, and every relation is compared with the least model computed by a naive evaluator. Thorough: additionally the same families over a three-element domain (all databases with <= 3-4 facts) and three-clause bodies.",
            "programs are a cut of the program space (families), domain size 2; reference evaluator and AST printer trusted", "6 C01"),
    "C02": ("P progcheck (default schedule) + S vsched (all schedules of collision harnesses)", "differential serial vs parallel macros on bounded-exhaustive programs x inputs at the default schedule; deviation-bounded exhaustive schedule exploration of collision harnesses under vsched",
            "Family F-par: a cut through F-scc, F-shape, F-lat, F-agg and the binary eqrel programs, each compiled with ascent!, ascent_par! and ascent_par! + #![inter_rule_parallelism]; every variant is compared with the reference model on every input of the budget while running on a one-worker rayon pool (the 0-deviation schedule); a parallel run that does not return within 60 s is reported as a hang with its replay data. vsched: harnesses H1-H8, H10 (diamond TC, two rules one head, lattice min, lattice then aggregate, negation, parallel eqrel, three-way join, two lattices feeding each other, lattice read by the third clause and written by the head) as ascent_par! and with inter_rule_parallelism, 1-3 workers, every execution with <= 3 (lattice harnesses 2) deviations incl. row-lock acquisitions: same rows / tuples / lattice values as the serial macro, no deadlock, panic or livelock.",
            "one rayon worker in this part (no preemption, nothing stolen); units whose parallel variant rustc rejects are outside the premise 'accepted by both front ends' (counted in the evidence)", "6 C02"),
    "C03": ("P progcheck", "bounded-exhaustive enumeration of lattice programs x all input databases on the compiled real macros, compared with a naive least-fixed-point evaluator",
            "8 lattice column types (u32, Dual<u32>, bool, Option<u8>, Set<u8>, BoundedSet<2,u8>, ConstPropagation<u8>, (u8,u8)) x 7 program shapes (non-recursive, recursive through the lattice with the lattice clause first/second, ternary lattice with bound/free/wildcard key columns, two lattices feeding each other, all derivations on one key / keyless lattice, two rules improving one key + simple joins on a lattice, lattice read by the third body clause and written by the head); all inputs up to a per-program budget; every relation incl. the plain relations derived through upward-closed tests compared with the reference LFP; exactly one row per key.",
            "monotone use only (monotone step functions, upward-closed tests, verified exhaustively by the vfn self-test); Product<..> has no Hash impl and cannot be a lattice column", "6 C03"),
    "C04": ("P progcheck", "bounded-exhaustive enumeration of stratified aggregation / negation programs x all input databases on the compiled real macros, compared with a naive stratified evaluator",
            "Aggregated / negated relation is an input, the output of a non-looping or a looping stratum, a lattice, an aggregate result (depth 2) or head of two strata; aggregators count sum min max mean percentile(50) not + a user aggregator returning 0-2 values; keyed / unkeyed / second-column-bound / constant-key argument patterns; one, two (non-simple-join) and three positive clauses in front of the aggregate / negation, the aggregated relation possibly empty while the others are not; every program in both textual rule orders; all inputs incl. facts in the aggregated relation. Thorough: also over a three-element domain.",
            "domain {0,1}; multiplicity is observable through count / sum / mean", "6 C04"),
    "C05": ("P progcheck (+ S vsched for the parallel part)", "bounded-exhaustive programs x inputs (incl. inputs with a duplicated fact) on the compiled real macros with row-multiplicity oracles on every run",
            "Families F-scc, F-lat, F-shape: after every run the number of rows equals the number of distinct tuples plus exactly the surplus the caller put in, the input vector is an unmodified prefix of the result vector (lattice rows: same key, value only grows), one row per lattice key.",
            "serial part only in this entry until the vsched part lands", "6 C05"),
    "C13": ("P progcheck", "bounded-exhaustive enumeration of run / add-facts histories over compiled programs x initial inputs x added fact sets vs the reference fixpoint of the union of all inputs",
            "Families F-scc, F-lat, F-agg: histories run;run and run;run;add S;run for every initial input of the budget and every single added fact (thorough: pairs and a second add;run), facts added to any relation incl. derived ones; idempotence for all programs, equality with a fresh run for programs without negation / aggregation. F-latbound (a lattice read with its lattice column bound by an earlier clause) reproduces the known finding listed in KNOWN_FINDINGS.txt. vsched: harnesses H9 (run; add facts; run on a parallel transitive closure and on a lattice feeding an aggregate), 1-2 workers, <= 2 deviations.",
            "added lattice rows use keys the relation does not hold yet; no caller-made duplicate facts", "6 C13"),
    "C06": ("P progcheck", "differential over syntactic variants of one logical program, all compiled by the real macros, compared with the reference on all inputs",
            "Units from F-scc and F-shape; variants: every permutation of the rules (<= 4 rules), reversed / rotated declarations, reversed head clauses, every order of mutually independent body clauses, a generator / let over constants moved from the front to every later position it is independent of, three adversarial variable namings (single letters, underscore variants that collide with generated suffixes, unicode), two relation renamings (alphabetical order reversed; prefixes of each other), injective renamings of the constants into i64 / String / a struct with colliding Hash (generic struct signature, both permutations of the domain), and every input in ascending, descending and rotated tuple order.",
            "identifiers reserved by the generated code (__-prefixed internals) are not used as names; domain {0,1}", "6 C06"),
    "C07": ("P progcheck", "differential sugared vs hand-expanded (by the harness's own expander implementing the documented rules) vs reference, all inputs",
            "F-sugar: one- and two-clause bodies with every surface form (wildcard, constant, ?pattern binder / constant, repeated variable, expression over a variable of the same or of an earlier clause) alone (thorough: in pairs) in every argument position; negation (bound, wildcard, expression arguments), disjunction and nested disjunction, several head clauses, condition attached to the second clause of a simple join, body-less facts; a let / for item in front of one or two clauses so that a clause argument bound earlier is an equality test inside what looks like a plain join, with a third variant in which every earlier-bound clause variable is written as a fresh variable plus `if` test. The reference evaluator run on the sugared AST must agree with the expander on every input.",
            "the expander is the documented semantics written down once", "6 C07"),
    "C08": ("P progcheck", "differential with-macros vs hand expansion vs reference, all inputs, under every spelling clash",
            "F-macro: 9 macro definitions (ident / expr parameters, locals, condition, disjunction, nested and 3-deep invocations, head macro, let + negation, a disjunction of nested invocations, a local determined by a parameter) x 24 call patterns (same macro twice, invocations inside a disjunction whose disjuncts invoke a macro a different number of times followed / preceded by further invocations, head and body position ...) x 7 naming schemes in which call-site variables are spelled like macro locals, like parameters, and like the names the renamer itself generates.",
            "self-referential macros are covered by C15", "6 C08"),
    "C09": ("P progcheck", "differential over packaging configurations, all compiled by the real macros, compared with the reference on all inputs",
            "F-pack: programs from F-scc, F-lat, F-agg, F-shape, each as ascent! / ascent_run! (inputs captured from locals) / include_source with the text cut at item boundaries (every cut in thorough) under ascent!, ascent_run!, ascent_par! / relations declared with initialisers / every relation re-declared (later declaration and initialiser win; also: earlier declaration with an initialiser, later one without) / measure_rule_times, generate_run_timeout, both / generic struct signature with and without a separate impl signature; the whole family a second time built with the cargo feature segment-codegen.",
            "a core set of ~45 programs (quick)", "6 C09"),
    "C15": ("P progcheck, two stages", "exhaustive enumeration of single ill-formedness mutations at every position x four macros; the real macro implementation runs inside rustc (hook), rustc judges what the macro accepts",
            "From 30 (quick) well-formed base programs: undeclared relation and arity +-1 at every atom (heads, bodies, aggregates, negations, bodies of invoked macros); aggregate / negation of a relation in its own stratum directly, via a second rule, via a multi-head rule; rebinding a bound variable by let / if-let / generator / ?pattern / aggregate pattern after every body item; self- and mutually-recursive macros in body, head and disjunction position; include_source! inside ascent_source!; ds attribute on a lattice, two ds attributes; unknown inner / relation attributes; inter_rule_parallelism on serial macros. Every variant must be rejected by the macro (no panic) or by rustc with an error located at the program.",
            "mutations are applied to the printed program text; hook verif_expand_status!", "6 C15"),
    "C10": ("P progcheck", "bounded-exhaustive insertion histories x access patterns on compiled programs with the real eqrel provider vs the explicit equivalence closure", 'Programs with a clocked feeder (the input relation sched(i,[k,]a,b) is the insertion history: which pair arrives in which iteration of the recursive stratum, keys that pause and resume), an at-once feeder, a feeder split over two strata and a self-feeding rule; one reader per access pattern (every subset of bound columns, constants, repeated variable, relation first / second in a simple join, self join) placed in a later stratum and inside the recursive stratum; binary and ternary form; all schedules with <= 4 (ternary: 3) facts over pairs {0,1,2}^2, times 0..2 (ternary: 2 keys), plus deep4 programs without element constants run on all schedules with <= 4 facts over 4 elements, one representative per renaming of the elements; every reader relation compared with the explicit reflexive-symmetric-transitive closure computed by the naive evaluator; programs that do not compile are reported.', "serial macros only in this entry (parallel binary eqrel: vsched); results observed through reader relations", "6 C10-C12"),
    "C11": ("P progcheck", "bounded-exhaustive insertion histories x access patterns on compiled programs with the real trrel provider vs the explicit transitive closure", 'Programs with a clocked feeder (the input relation sched(i,[k,]a,b) is the insertion history: which pair arrives in which iteration of the recursive stratum, keys that pause and resume), an at-once feeder, a feeder split over two strata and a self-feeding rule; one reader per access pattern (every subset of bound columns, constants, repeated variable, relation first / second in a simple join, self join) placed in a later stratum and inside the recursive stratum; binary and ternary form; all schedules with <= 4 (ternary: 3) facts over pairs {0,1,2}^2, times 0..2 (ternary: 2 keys), plus deep4 programs without element constants run on all schedules with <= 4 facts over 4 elements, one representative per renaming of the elements; every reader relation compared with the explicit transitive closure computed by the naive evaluator; programs that do not compile are reported.', "results observed through reader relations", "6 C10-C12"),
    "C12": ("P progcheck", "bounded-exhaustive insertion histories x access patterns on compiled programs with the real trrel_uf provider vs the explicit reflexive-transitive closure", 'Programs with a clocked feeder (the input relation sched(i,[k,]a,b) is the insertion history: which pair arrives in which iteration of the recursive stratum, keys that pause and resume), an at-once feeder, a feeder split over two strata and a self-feeding rule; one reader per access pattern (every subset of bound columns, constants, repeated variable, relation first / second in a simple join, self join) placed in a later stratum and inside the recursive stratum; binary and ternary form; all schedules with <= 4 (ternary: 3) facts over pairs {0,1,2}^2, times 0..2 (ternary: 2 keys), plus deep4 programs without element constants run on all schedules with <= 4 facts over 4 elements, one representative per renaming of the elements; every reader relation compared with the explicit reflexive-transitive closure computed by the naive evaluator; programs that do not compile are reported.', "results observed through reader relations", "6 C10-C12"),
    "C14": ("P progcheck + virtual clock", "fault enumeration: run_timeout(t) for every t in 0..=M+1 virtual clock readings, i.e. every position at which the deadline can strike; single, repeated and double interruptions; resume with run()",
            "Programs from F-scc, F-lat, F-agg and the binary BYODS programs of F-ds (relation computed in one stratum, read in a later / the same one) compiled with #![generate_run_timeout]; hook H-A2 makes ascent::internal::Instant a per-thread tick counter (1 ns per reading) so that scanning t hits every deadline check; after a false return every tuple must be in the model and every lattice value below the final one, after true the state equals the fixed point, after the resuming run() it equals the fixed point of an uninterrupted run.",
            "serial macro; hook verif-hooks (virtual Instant)", "6 C14"),
    "C16": ("H histcheck", "exhaustive enumeration (all pairs / triples over complete small carriers) on the real Lattice impls",
            "All 256 values of u8/i8 (pairs; triples in thorough), boundary carriers for wider integers, complete carriers for every shipped composite lattice incl. nestings (tuples whose components are Dual / Option wrappers, Product of tuples with Dual, Rc / Arc with shared and fresh allocations ...); every law of the property is evaluated on every pair/triple of the real implementation.",
            "rustc/std trusted; wide integers only at boundary values", "6 C16"),
    "C17": ("H histcheck", "exhaustive enumeration of all input sequences up to length 6 (7 thorough) on the real aggregators",
            "Every sequence over {-1,0,1,2} up to the length bound, four size_hint shapes, percentile over a p grid + all rank boundaries, compared with the mathematical definition; percentile additionally on n distinct values for every n <= 128 (400) and every p of a quarter-step grid with the rank computed in integer arithmetic; panics are violations.",
            "values from a 4-element alphabet; f64 mean compared exactly (exact for these inputs)", "6 C17"),
    "C18": ("H histcheck", "exhaustive DFS over all operation histories up to a depth bound on the real structures (state = history), reference closure compared after every operation",
            "Every add-sequence over 4 elements to depth 6 (7 thorough) and over 5 elements to depth 4 (5) on the real TrRelUnionFind; histories from non-initial states (r <= 7 (8) nested class collapses, each in one of 4 orders, followed by every add over 9 (10) elements; thorough also every pair of adds after r <= 5); every add/find/union sequence to depth 5 (6) on the real UnionFind incl. the unsafe id-based API; after each operation all public queries and the structures' own invariant checks are compared with a Warshall closure / partition.",
            "element domain 4-5, depth bound; hash iteration order is whatever FxHasher gives for u8 keys", "6 C18"),
    "C20": ("S vsched", "exhaustive enumeration of pool configurations (one process each) x deviation-bounded exhaustive schedule exploration of the real parallel code",
            "Programs: transitive closure, un-indexed scans (CRelNoIndex), lattice, initialised relation; pool current at construction in {global(2),1,2,3} x pool at run 1 x pool at run 2 in {1,2,3} (+ nested 2-in-3, thorough: a third run), facts added between runs, every execution with <= 2 (3) deviations; result must equal the serial program's. Plus three program values (two parallel of the same type, one serial) running concurrently on 3 workers, and two parallel values (one with three strata) running at the same time in pools of sizes 1 and 3, every execution of that configuration in a fresh process.",
            "pool sizes 1..3; the executor shim models rayon's contract (any idle worker may take a pending job), not its heuristics", "6 C20"),
    "C19": ("H histcheck + S vsched", "exhaustive DFS over all operation histories on every real index type vs a reference multimap; every interleaving of 2-3 virtual threads writing one shared concurrent index",
            "All sequences of insert (both write traits, into new/delta/total), insert-if-absent, merge_delta_to_total_new_to_delta, move_index_contents (six directions), freeze/unfreeze to depth 5 (concurrent types 4; thorough 6) on RelIndexType1, ToRelIndexType, RelFullIndexType, LatticeIndexType, RelNoIndexType, CRelIndex, CRelFullIndex, CLatIndex, CRelNoIndex and the RelIndexCombined view, with keys in the same and in different dashmap shards; every read path compared with a reference multimap after every operation. Concurrent part: every interleaving (vsched, dashmap lock shim) of 2 threads x 2 inserts / insert-if-absent calls and 3 threads x 1 insert on CRelIndex, CLatIndex, CRelFullIndex, CRelNoIndex with colliding keys, then freeze + all read paths: every insert retained, exactly one insert-if-absent winner per key.",
            "2 keys x 2 values; full indices use one value per key (which of two different values survives a merge is unspecified); reads on the wrong freeze state are expected panics and not in the alphabet", "6 C19"),
}
NOT_APPLICABLE = []

def main():
    hooks_commits = []
    try:
        out = subprocess.run(["git", "-C", "/repo", "log", "--format=%h %s"], capture_output=True, text=True).stdout
        hooks_commits = [l.split()[0] for l in out.splitlines() if " verif-hooks" in l or l.split(" ", 1)[1].startswith("hook:")]
    except Exception:
        pass
    checks = []
    for pid, (engine, technique, text, note, ref) in sorted(CHECKS.items()):
        checks.append({
            "property_id": pid,
            "quick_cmd": "./check %s --tier quick" % pid,
            "thorough_cmd": "./check %s --tier thorough" % pid,
            "evidence_file": "/verif/evidence/%s.json" % pid,
            "replay_cmd_template": "./check %s --replay {path}" % pid,
            "engine": engine,
            "level_claimed": {"category": "model_checking", "text": text, "design_ref": "DESIGN.md section " + ref},
            "level_note": note,
            "technique": technique,
        })
    all_ids = ["C%02d" % i for i in range(1, 21)]
    na = [x for x in NOT_APPLICABLE]
    claimed = set(CHECKS)
    listed = {x["property_id"] for x in na}
    for pid in all_ids:
        if pid not in claimed and pid not in listed:
            na.append({"property_id": pid, "reason": "check not built yet in this revision of /verif (planned, see DESIGN.md section 6); not claimed until its harness exists"})
    m = {
        "version": 1,
        "setup_cmd": "./setup.sh",
        "hooks": {
            "guard": "cargo feature verif-hooks (crates ascent, ascent_macro, ascent-byods-rels)",
            "enable": "harness crates depend on /repo crates by path with features=[\"verif-hooks\"] where a hook is needed",
            "baseline_off_cmd": "cd /repo && rm -f ascent_macro/examples/scratchpad.rs && cargo test --workspace --no-fail-fast --offline",
            "source_commits": hooks_commits,
            "add_only": True,
        },
        "engines": [
            {"name": "progcheck", "path": "/verif/engines/prog", "serves_properties": [], "kind_free_text": "bounded-exhaustive programs x inputs x histories on the real macros, against a naive reference evaluator"},
            {"name": "vsched", "path": "/verif/engines/vsched", "serves_properties": [], "kind_free_text": "deviation-bounded exhaustive schedule exploration (stateless DFS with replay) of the real parallel code via rayon-core / dashmap-lock shims"},
            {"name": "histcheck", "path": "/verif/engines/hist", "serves_properties": sorted(c for c in CHECKS if CHECKS[c][0].startswith("H")), "kind_free_text": "exhaustive enumeration of operation histories / value tuples on the real data structures with a reference model"},
        ],
        "checks": checks,
        "not_applicable": na,
        "notes": "All checks: ./check <id> --tier quick|thorough; exit 0/1/2 = held / violation / machinery error. Known findings: /verif/KNOWN_FINDINGS.txt.",
    }
    with open(os.path.join(ROOT, "MANIFEST.json"), "w") as f:
        json.dump(m, f, indent=1)

if __name__ == "__main__":
    main()

"""Per-property wiring: which harness parts make up each check."""
import os, json
from vlib.driver import cargo_build, run_part, ENGINES, TARGET, MachineryError, ROOT

REL = os.path.join(TARGET, "release")

COMMON_ASSUME = [
    "rustc, std and the third-party crates ascent depends on are trusted",
    "bounded: every statement is 'for all cases up to the stated bound'",
]


def hist_bin(name, args=None, env=None, timeout=3600):
    def run(prop, tier, seed):
        cargo_build(ENGINES, ["--release", "-p", "hist", "--bin", name])
        return [run_part(prop + "." + name, [os.path.join(REL, name)] + (args or []), tier, seed, env=env, timeout=timeout)]
    return run


def hist_replay(name):
    def replay(prop, path, tier, seed):
        cargo_build(ENGINES, ["--release", "-p", "hist", "--bin", name])
        rep = run_part(prop + ".replay", [os.path.join(REL, name), "--replay", path], tier, seed)
        for v in rep.get("violations", []):
            print("REPLAY-VIOLATION property=%s %s" % (prop, v["desc"][:500]))
        print("replay: %d violation(s) reproduced" % rep.get("violation_total", 0))
        return 1 if rep.get("violation_total", 0) else 0
    return replay


SPECS = {
    "C16": {"run": hist_bin("c16"), "replay": hist_replay("c16"), "technique": "exhaustive enumeration of all pairs/triples over complete small carriers on the real Lattice impls",
            "assumptions": COMMON_ASSUME + ["wide integer types are covered at boundary values only; u8/i8 completely"]},
    "C17": {"run": hist_bin("c17"), "replay": hist_replay("c17"), "technique": "exhaustive enumeration of all input sequences up to a length bound on the real aggregators",
            "assumptions": COMMON_ASSUME + ["values from {-1,0,1,2}; percentile p from a 0.5 grid plus rank boundaries"]},
    "C18": {"run": hist_bin("c18"), "replay": hist_replay("c18"), "technique": "exhaustive DFS over all operation histories up to a depth bound on the real structures, reference closure compared after every operation",
            "assumptions": COMMON_ASSUME + ["4 (and 5) elements; histories up to depth 6/7 (TrRelUnionFind), 5/6 (UnionFind)"]},
    "C19": {"run": lambda prop, tier, seed: c19_run(prop, tier, seed), "replay": hist_replay("c19"),
            "technique": "exhaustive DFS over all operation histories on every real index type vs a reference multimap (serial part); exhaustive interleavings under the vsched scheduler (concurrent part)",
            "assumptions": COMMON_ASSUME + ["2 keys (same shard / different shards) x 2 values; depth 5 (6 thorough)"]},
}


def c19_run(prop, tier, seed):
    cargo_build(ENGINES, ["--release", "-p", "hist", "--bin", "c19"])
    reps = []
    for cfg in ("same", "diff"):
        reps.append(run_part("%s.serial-%s" % (prop, cfg), [os.path.join(REL, "c19")], tier, seed, env={"C19_KEYS": cfg}))
        reps[-1]["part"] = "serial-keys-" + cfg
    return reps

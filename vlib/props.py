"""Per-property wiring: which harness parts make up each check."""
import os, json, shutil
from vlib.driver import cargo_build, cargo_env, run_part, ENGINES, TARGET, MachineryError, ROOT, log

REL = os.path.join(TARGET, "release")

COMMON_ASSUME = [
    "rustc, std and the third-party crates ascent depends on are trusted",
    "bounded: every statement is 'for all cases up to the stated bound'",
]


def hist_bin(name, args=None, env=None, timeout=3600):
    def run(prop, tier, seed):
        cargo_build(ENGINES, ["--release", "-p", "hist", "--bin", name])
        return [run_part(prop + "." + name, [os.path.join(REL, name)] + (args or []), tier, seed, env=env, timeout=timeout)]
    return run


def hist_replay(name):
    def replay(prop, path, tier, seed):
        cargo_build(ENGINES, ["--release", "-p", "hist", "--bin", name])
        rep = run_part(prop + ".replay", [os.path.join(REL, name), "--replay", path], tier, seed)
        for v in rep.get("violations", []):
            print("REPLAY-VIOLATION property=%s %s" % (prop, v["desc"][:500]))
        print("replay: %d violation(s) reproduced" % rep.get("violation_total", 0))
        return 1 if rep.get("violation_total", 0) else 0
    return replay


GEN = os.path.join(ROOT, "build", "gen")
TARGET_GEN = os.path.join(ROOT, "build", "target-gen")
NSHARDS = 16


COMPILE_FAILURES = {}


def build_family(family, tier):
    """generate + build the batch crates of one program family; returns the list of shard binaries.
    Units whose program does not compile are isolated (exclude.json), rebuilt without, and remembered in
    COMPILE_FAILURES[(family, tier)] = {unit: first error line} for the caller to report."""
    import subprocess, re
    cargo_build(ENGINES, ["--release", "-p", "prog", "--bin", "pgen"])
    d = os.path.join(GEN, "%s_%s" % (family, tier))
    excl = os.path.join(d, "exclude.json")
    if os.path.exists(excl):
        os.remove(excl)
    failures = {}
    for attempt in range(10):
        p = subprocess.run([os.path.join(REL, "pgen"), family, tier, GEN, str(NSHARDS)], capture_output=True, text=True)
        if p.returncode != 0:
            raise MachineryError("pgen failed: " + p.stderr[-2000:])
        try:
            cargo_build(d, ["--release", "--message-format=json"], env={"CARGO_TARGET_DIR": TARGET_GEN})
            break
        except MachineryError as e:
            out = getattr(e, 'full_output', str(e))
            new = {}
            # error diagnostics, attributed to the unit that contains their primary span (secondary spans and
            # notes of a diagnostic can point into other programs of the batch crate)
            for line in out.splitlines():
                if not line.startswith("{"):
                    continue
                try:
                    jm = json.loads(line)
                except ValueError:
                    continue
                if jm.get("reason") != "compiler-message" or jm.get("message", {}).get("level") != "error":
                    continue
                msg = jm["message"].get("message", "compile error")
                for sp in jm["message"].get("spans", []):
                    if not sp.get("is_primary"):
                        continue
                    m = re.search(r"(g_%s_%s_s\d+)/src/main.rs$" % (family, tier), sp.get("file_name", ""))
                    if not m:
                        continue
                    src = open(os.path.join(d, m.group(1), "src", "main.rs")).read().splitlines()
                    ln = int(sp.get("line_start", 0))
                    unit = None
                    for i in range(min(ln, len(src)) - 1, -1, -1):
                        mm = re.match(r"pub mod u(\d+)_v(\d+) \{", src[i])
                        if mm:
                            unit = int(mm.group(1))
                            break
                    if unit is not None and unit not in failures and unit not in new:
                        new[unit] = msg + " :: " + (src[ln - 1].strip() if 0 < ln <= len(src) else "")
            if not new or attempt == 9:
                raise
            failures.update(new)
            with open(excl, "w") as f:
                json.dump({"units": sorted(failures)}, f)
            log("family %s/%s: %d unit(s) do not compile, isolating them: %s" % (family, tier, len(failures), sorted(failures)[:20]))
    COMPILE_FAILURES[(family, tier)] = failures
    return [os.path.join(TARGET_GEN, "release", "g_%s_%s_s%02d" % (family, tier, i)) for i in range(NSHARDS)]


def compile_failure_part(prop, family, tier):
    """violations for units that were isolated because their (well-formed) program does not compile"""
    import subprocess
    fails = COMPILE_FAILURES.get((family, tier), {})
    vs, sigs = [], {}
    for unit, msg in sorted(fails.items()):
        dj = json.loads(subprocess.run([os.path.join(REL, "pgen"), "--describe", family, tier, str(unit)], capture_output=True, text=True).stdout)
        sig = "%s|%s|%s|does-not-compile" % (prop, family, dj["tag"])
        sigs[sig] = sigs.get(sig, 0) + 1
        vs.append({"sig": sig, "desc": "%s: well-formed program rejected by rustc: %s -- program: %s" % (dj["tag"], msg[:300], " ".join(dj["variants"][0]["program"])),
                   "replay": {"family": family, "tier": tier, "unit": unit, "mode": "compile", "tag": dj["tag"], "program": dj["variants"][0]["program"]}})
    return {"part": "%s/compile" % family, "states": len(fails), "transitions": len(fails), "executions": 0, "evaluations": len(fails), "nontrivial": 0,
            "exhaustive": True, "caps_hit": [], "samples": [], "extras": {"units_not_compiling": len(fails)}, "violations": vs[:60],
            "violation_total": len(vs), "sig_counts": sigs, "rule": "", "wall_s": 0}


def run_family(prop, family, tier, seed, mode, extra_args=None, timeout=3600):
    from concurrent.futures import ThreadPoolExecutor
    bins = build_family(family, tier)
    def one(ib):
        i, b = ib
        return run_part("%s.%s.%s.s%02d" % (prop, family, mode, i), [b, "--mode", mode] + (extra_args or []), tier, seed, timeout=timeout)
    with ThreadPoolExecutor(max_workers=NSHARDS) as ex:
        reps = list(ex.map(one, enumerate(bins)))
    # collapse the shards of one family into one part
    from vlib.driver import merge
    m = merge(reps)
    return {"part": "%s/%s" % (family, mode), "states": m["states"], "transitions": m["transitions"], "executions": m["executions"],
            "evaluations": m["evaluations"], "nontrivial": m["nontrivial"], "exhaustive": m["exhaustive"], "caps_hit": m["caps_hit"],
            "samples": m["samples"][:3], "extras": sum_extras(reps), "violations": m["violations"], "violation_total": m["violation_total"],
            "sig_counts": m["sig_counts"], "rule": reps[0].get("rule", ""), "wall_s": max(r.get("wall_s", 0) for r in reps)}


def sum_extras(reps):
    out = {}
    for r in reps:
        for k, v in r.get("extras", {}).items():
            if isinstance(v, (int, float)) and not isinstance(v, bool):
                out[k] = out.get(k, 0) + v
            else:
                out[k] = v
    return out


def prog_check(families, mode, report_compile_failures=True):
    def run(prop, tier, seed):
        reps = []
        for f in families:
            # "<family>@thorough": only in the thorough tier
            if f.endswith("@thorough"):
                if tier != "thorough":
                    continue
                f = f[:-len("@thorough")]
            reps.append(run_family(prop, f, tier, seed, mode))
            if report_compile_failures and COMPILE_FAILURES.get((f, tier)):
                reps.append(compile_failure_part(prop, f, tier))
        return reps
    return run


def prog_replay(prop, path, tier, seed):
    r = json.load(open(path))["replay"]
    family, rtier, unit = r["family"], r["tier"], r["unit"]
    bins = build_family(family, rtier)
    rep = run_part(prop + ".replay", [bins[unit % NSHARDS], "--mode", r["mode"], "--replay", path], rtier, seed)
    for v in rep.get("violations", []):
        print("REPLAY-VIOLATION property=%s %s" % (prop, v["desc"][:800]))
    print("replay: %d violation(s) reproduced" % rep.get("violation_total", 0))
    return 1 if rep.get("violation_total", 0) else 0


IDX_HARNESSES = ["%s-%s" % (a, b) for a in ("CRelIndex-2x2", "CLatIndex-2x2") for b in ("same-shard", "different-shards", "one-key")] + \
    ["CRelFullIndex-ina-2x2-same-shard", "CRelFullIndex-ina-2x2-different-shards", "CRelFullIndex-ina-one-key-count", "CRelIndex-3x1-one-key", "CRelNoIndex-3x1-N2", "CRelNoIndex-3x1-N3"]


def race_part(prop, binary="idx"):
    """auxiliary: free-running threads under Miri's (happens-before) data-race detector; discharges the premise 'data-race
    free' of the lock-granular scheduler. idx: the `&self` write paths of the concurrent index types (2 OS threads);
    par: real ascent_par! programs (plain, inter-rule parallelism, parallel eqrel; run / add / run) on a 2-worker rayon pool"""
    import subprocess, time as _t
    d = os.path.join(ENGINES, "race")
    if not os.path.exists(os.path.join(d, "Cargo.lock")) and os.path.exists("/repo/Cargo.lock"):
        shutil.copy("/repo/Cargo.lock", os.path.join(d, "Cargo.lock"))
    env = cargo_env({"CARGO_TARGET_DIR": os.path.join(ROOT, "build", "target-race"),
                     "MIRIFLAGS": "-Zmiri-disable-isolation -Zmiri-ignore-leaks -Zmiri-disable-stacked-borrows -Zmiri-permissive-provenance"})
    t0 = _t.time()
    try:
        p = subprocess.run(["cargo", "+nightly", "miri", "run", "--offline", "--bin", binary], cwd=d, env=env, capture_output=True, text=True, timeout=1800)
    except subprocess.TimeoutExpired:
        raise MachineryError("race part: miri run exceeded 1800 s")
    out = p.stdout + p.stderr
    rep = {"part": "race/miri-" + binary, "states": 4, "transitions": 8, "executions": 1, "evaluations": 4, "nontrivial": 4, "exhaustive": True, "caps_hit": [], "samples": [],
           "extras": {"race_detector": ("one free-running execution per index type (2 threads x 2-3 inserts each)" if binary == "idx" else "three ascent_par! programs (run; add; run) on a 2-worker rayon pool") + " under Miri's happens-before data-race detector"},
           "violations": [], "violation_total": 0, "sig_counts": {}, "rule": "", "wall_s": _t.time() - t0}
    if p.returncode == 0 and "race: ok" in out:
        return rep
    m = [l for l in out.splitlines() if "Data race detected" in l or "panicked" in l or "lost an insert" in l or "one winner" in l]
    if m:
        sig = "%s|race|%s" % (prop, "data-race" if "Data race" in m[0] else "assertion")
        lines = out.splitlines()
        first = next((i for i, l in enumerate(lines) if l.strip() == m[0].strip() or m[0].strip() in l), 0)
        where = [l.strip() for l in lines[first:] if "-->" in l][:3]
        rep["violations"] = [{"sig": sig, "desc": "free-running threads under Miri (%s): %s %s" % (binary, m[0].strip()[:300], " | ".join(where)[:300]), "replay": {"part": "race", "cmd": "cd engines/race && cargo +nightly miri run --offline --bin " + binary}}]
        rep["violation_total"] = 1
        rep["sig_counts"] = {sig: 1}
        return rep
    raise MachineryError("race part: miri run failed without a verdict:\n" + out[-2500:])


def c19_run(prop, tier, seed):
    cargo_build(ENGINES, ["--release", "-p", "hist", "--bin", "c19"])
    build_sched()
    reps = [run_sched(prop, "idx", ["ALL"], tier, seed, extra_env={"VSCHED_ONLY_ALL": "1"}), race_part(prop)]
    for cfg in ("same", "diff"):
        reps.append(run_part("%s.serial-%s" % (prop, cfg), [os.path.join(REL, "c19")], tier, seed, env={"C19_KEYS": cfg}))
        reps[-1]["part"] = "serial-keys-" + cfg
    return reps


P_ASSUME = COMMON_ASSUME + ["the reference evaluator and the AST printer are trusted (guarded by the wrong-reference self-test and the mutation demos)"]

SPECS = {}
QUICK_FAMILIES = ["shape", "scc", "lat", "agg", "timeout", "ds", "par", "sugar", "macro", "pack", "packseg", "perm", "latbound", "dsrerun"]
SPECS["C01"] = {"run": prog_check(["shape", "scc", "shape-n3@thorough", "scc-n3@thorough"], "C01"), "replay": prog_replay,
                "technique": "bounded-exhaustive enumeration of programs (compiled by the real macros) x all input databases, compared with a naive reference evaluator",
                "assumptions": P_ASSUME + ["programs from the families F-shape and F-scc, domain {0,1}"]}
SCHED = os.path.join(ENGINES, "sched")
TARGET_SCHED = os.path.join(ROOT, "build", "target-sched")
PAR_HARNESSES = ["H1-diamond-tc", "H2-two-rules-one-head", "H3-lattice-min", "H4-lattice-then-aggregate", "H5-negation", "H6-eqrel", "H7-three-way-join", "H8-mutual-lattices", "H10-lattice-third-clause", "H11-eqrel-merge-vs-link", "H12-lattice-keys-sharing-a-shard"]


def build_sched():
    import subprocess
    p = subprocess.run([os.path.join(SCHED, "mkshims.sh")], capture_output=True, text=True)
    if p.returncode != 0:
        raise MachineryError("mkshims.sh failed: " + p.stderr[-1000:])
    cargo_build(SCHED, ["--release"], env={"CARGO_TARGET_DIR": TARGET_SCHED})


def run_sched(prop, binary, names, tier, seed, extra_env=None, timeout=3000):
    """runs one process per harness name (VSCHED_ONLY) in parallel and merges them into one part"""
    from concurrent.futures import ThreadPoolExecutor
    from vlib.driver import merge
    def one(nm):
        env = {"VSCHED_ONLY": nm, "VSCHED_PROP": prop}
        env.update(extra_env or {})
        tag = "".join(c if c.isalnum() else "_" for c in nm)
        return run_part("%s.vsched.%s.%s" % (prop, binary, tag), [os.path.join(TARGET_SCHED, "release", binary)], tier, seed, env=env, timeout=timeout)
    with ThreadPoolExecutor(max_workers=16) as ex:
        reps = list(ex.map(one, names))
    m = merge(reps)
    return {"part": "vsched/%s" % binary, "states": m["states"], "transitions": m["transitions"], "executions": m["executions"],
            "evaluations": m["evaluations"], "nontrivial": m["nontrivial"], "exhaustive": m["exhaustive"], "caps_hit": m["caps_hit"],
            "samples": m["samples"][:4], "extras": {k.split(".", 1)[1] if "." in k else k: v for k, v in m["extras"].items()},
            "violations": m["violations"], "violation_total": m["violation_total"], "sig_counts": m["sig_counts"],
            "rule": reps[0].get("rule", ""), "wall_s": max(r.get("wall_s", 0) for r in reps)}


def par_sched_part(prop, tier, seed):
    build_sched()
    names = ["%s[%s]" % (h, v) for h in PAR_HARNESSES for v in ("par", "par+irp")]
    return run_sched(prop, "par", names, tier, seed)


def sched_replay(binary):
    def replay(prop, path, tier, seed):
        r = json.load(open(path))["replay"]
        if "harness" not in r:
            return prog_replay(prop, path, tier, seed)
        build_sched()
        rep = run_part(prop + ".replay", [os.path.join(TARGET_SCHED, "release", binary), "--replay", path], tier, seed, env={"VSCHED_PROP": prop})
        for v in rep.get("violations", []):
            print("REPLAY-VIOLATION property=%s %s" % (prop, v["desc"][:800]))
        print("replay: %d violation(s) reproduced" % rep.get("violation_total", 0))
        return 1 if rep.get("violation_total", 0) else 0
    return replay


def c02_run(prop, tier, seed):
    # the Miri race pass runs on one core next to the other parts
    from concurrent.futures import ThreadPoolExecutor
    with ThreadPoolExecutor(max_workers=1) as ex:
        race = ex.submit(race_part, prop, "par")
        reps = [par_sched_part(prop, tier, seed), run_family(prop, "par", tier, seed, "C02")]
        race_rep = race.result()
    # C02 speaks about programs accepted by both front ends: a unit whose parallel variant is rejected by
    # rustc is outside its premise (reported under C15); but if many units drop out the run is vacuous
    fails = COMPILE_FAILURES.get(("par", tier), {})
    reps[1].setdefault("extras", {})["units_not_accepted_by_both_front_ends"] = len(fails)
    if len(fails) > 12:
        raise MachineryError("%d units of the par family do not compile: the differential check would be vacuous" % len(fails))
    reps.append(race_rep)
    return reps


SPECS["C02"] = {"run": c02_run, "replay": sched_replay("par"),
                "technique": "differential serial vs parallel macros on bounded-exhaustive programs x inputs at the default schedule (one rayon worker); exhaustive schedule exploration of collision harnesses under vsched",
                "assumptions": P_ASSUME + ["this part runs the parallel code on a one-worker rayon pool (the 0-deviation schedule)"]}
SPECS["C03"] = {"run": prog_check(["lat", "lat-n3@thorough"], "C03"), "replay": prog_replay,
                "technique": "bounded-exhaustive enumeration of lattice programs (8 lattice column types x 7 shapes, compiled by the real macros) x all input databases, compared with a naive least-fixed-point evaluator",
                "assumptions": P_ASSUME + ["lattice values flow only through monotone uses (monotone step into a lattice head, upward-closed test); Product<..> cannot be a lattice column (no Hash impl)"]}
SPECS["C04"] = {"run": prog_check(["agg", "agg-n3@thorough"], "C04"), "replay": prog_replay,
                "technique": "bounded-exhaustive enumeration of stratified programs with aggregation / negation (compiled by the real macros) x all input databases, compared with a naive stratified evaluator",
                "assumptions": P_ASSUME + ["aggregated relation is an input, a non-looping or looping stratum output, a lattice, an aggregate result, or the head of two strata; aggregators count sum min max mean percentile(50) not and a user aggregator"]}
def c05_run(prop, tier, seed):
    fams = ["scc", "lat", "par"] + (["shape"] if tier == "thorough" else [])
    return [par_sched_part(prop, tier, seed)] + prog_check(fams, "C05", report_compile_failures=False)(prop, tier, seed)


SPECS["C05"] = {"run": c05_run, "replay": sched_replay("par"),
                "technique": "bounded-exhaustive programs x inputs (incl. inputs with a duplicated fact) on the compiled real macros; row multiplicity, input-prefix and one-row-per-lattice-key oracles on every run",
                "assumptions": P_ASSUME + ["serial part; the parallel part (all interleavings of workers deriving the same tuple) is explored by the vsched engine"]}
def c13_run(prop, tier, seed):
    build_sched()
    names = ["%s[%s]" % (h, v) for h in ("H9-rerun-tc", "H9-rerun-lattice-aggregate") for v in ("par", "par+irp")]
    return [run_sched(prop, "par", names, tier, seed)] + prog_check(["scc", "lat", "agg", "par", "latbound", "dsrerun"], "C13", report_compile_failures=False)(prop, tier, seed)


SPECS["C13"] = {"run": c13_run, "replay": sched_replay("par"),
                "technique": "bounded-exhaustive enumeration of run / add-facts histories over compiled programs x initial inputs x added fact sets, compared with the reference fixpoint of the union of inputs",
                "assumptions": P_ASSUME + ["histories run;run and run;run;add;run (thorough: a second add;run and pairs of facts); facts added to any relation incl. derived ones; fresh lattice keys only"]}
SPECS["C14"] = {"run": prog_check(["timeout"], "C14"), "replay": prog_replay,
                "technique": "fault enumeration by virtual clock: run_timeout(t) for every t in 0..=M+1 clock readings (every position at which the deadline can strike), single / repeated / double interruptions, then resume; compared with the reference fixpoint",
                "assumptions": P_ASSUME + ["hook: ascent::internal::Instant has a per-thread virtual mode (1 ns per reading) under the verif-hooks feature", "serial macro"]}
SPECS["C07"] = {"run": prog_check(["sugar", "sugar-n3@thorough"], "C07"), "replay": prog_replay,
                "technique": "differential: every sugared program and its hand expansion (by the harness's own expander implementing the documented rules) are both compiled by the real macros and compared with each other and the reference on all inputs",
                "assumptions": P_ASSUME + ["the harness expander is the documented semantics written down once; the reference evaluator run on the sugared AST directly must agree with it (checked on every input)"]}


SPECS["C08"] = {"run": prog_check(["macro", "macro-n3@thorough"], "C08"), "replay": prog_replay,
                "technique": "differential: programs with in-program macros under every spelling clash between call-site variables, macro locals, parameter names and renamer-generated names vs their hand expansion (parameters substituted, macro-bound identifiers fresh per invocation), both compiled by the real macros, all inputs",
                "assumptions": P_ASSUME + ["7 macro definitions x 16 call patterns x 7 naming schemes; the self-referential macro case is part of C15"]}


def c09_run(prop, tier, seed):
    reps = prog_check(["pack"], "C09")(prop, tier, seed)
    # the same programs and variants built with the cargo feature segment-codegen
    reps += prog_check(["packseg"], "C09")(prop, tier, seed)
    return reps


SPECS["C09"] = {"run": c09_run, "replay": prog_replay,
                "technique": "differential over packaging configurations: every variant (ascent_run!, include_source at every cut, initialised / re-declared relations, timing / timeout attributes, generic struct signature, segment-codegen build) of each program is compiled by the real macros and compared with the reference on all inputs",
                "assumptions": P_ASSUME + ["a core set of programs from F-scc, F-lat, F-agg, F-shape"]}


SPECS["C06"] = {"run": prog_check(["perm"], "C06"), "replay": prog_replay,
                "technique": "differential over syntactic variants: every permutation of rules / declarations / head clauses / independent body clauses, adversarial variable and relation names, injective renamings of the constants into i64 / String / a struct with colliding Hash, and three input tuple orders; all compiled by the real macros, each compared with the reference on all inputs",
                "assumptions": P_ASSUME + ["units from F-scc and F-shape; identifiers reserved by the generated code are not used as names"]}


def c15_run(prop, tier, seed):
    from vlib import c15
    return c15.run(prop, tier, seed)


def c15_replay(prop, path, tier, seed):
    from vlib import c15
    r = json.load(open(path))["replay"]
    errs, compiled = c15.stage2([{"key": "replay", "kind": r["kind"], "items": r["program"], "m": r}])
    ok = bool(errs.get("replay")) and not any("panicked" in e for e in errs["replay"])
    print("replay: rustc says: %s" % (errs.get("replay") or ["<compiles>"])[:2])
    return 0 if ok else 1


SPECS["C15"] = {"run": c15_run, "replay": c15_replay,
                "technique": "exhaustive enumeration of single ill-formedness mutations at every position of a set of base programs x the four macros; stage 1 runs the real macro implementation inside rustc (hook macro), stage 2 compiles every variant the macro accepted (plus representatives) and requires a compile error located at the program",
                "assumptions": COMMON_ASSUME + ["hook: verif_expand_status! (feature verif-hooks) exposes accept / reject / panic of the macro implementation", "mutations are applied to the printed program text"]}


def ds_check(dsname):
    def run(prop, tier, seed):
        reps = [run_family(prop, "ds", tier, seed, prop, extra_args=["--only-tag", "ds-%s-" % dsname])]
        if COMPILE_FAILURES.get(("ds", tier)):
            part = compile_failure_part(prop, "ds", tier)
            keep = [v for v in part["violations"] if ("ds-%s-" % dsname) in v["sig"]]
            part["violations"] = keep
            part["sig_counts"] = {k: v for k, v in part["sig_counts"].items() if ("ds-%s-" % dsname) in k}
            part["violation_total"] = sum(part["sig_counts"].values())
            reps.append(part)
        return reps
    return run


for _pid, _ds, _what in (("C10", "eqrel", "reflexive-symmetric-transitive closure"), ("C11", "trrel", "transitive closure"), ("C12", "trrel_uf", "reflexive-transitive closure")):
    SPECS[_pid] = {"run": ds_check(_ds), "replay": prog_replay,
                   "technique": "bounded-exhaustive insertion histories (which pair arrives in which iteration) x access patterns on compiled programs with the real provider, compared with the explicit " + _what + " computed by a naive evaluator",
                   "assumptions": P_ASSUME + ["pairs over {0,1,2}, arrival times 0..2, <= 3 pairs (binary) / <= 2-3 (ternary, 2 keys)", "results are observed through reader relations (the tagged relation's own field is a FakeVec)"]}
SPECS["C16"] = {"run": hist_bin("c16"), "replay": hist_replay("c16"),
                "technique": "exhaustive enumeration of all pairs/triples over complete small carriers on the real Lattice impls",
                "assumptions": COMMON_ASSUME + ["wide integer types are covered at boundary values only; u8/i8 completely"]}
SPECS["C17"] = {"run": hist_bin("c17"), "replay": hist_replay("c17"),
                "technique": "exhaustive enumeration of all input sequences up to a length bound on the real aggregators",
                "assumptions": COMMON_ASSUME + ["values from {-1,0,1,2}; percentile p from a 0.5 grid plus rank boundaries"]}
SPECS["C18"] = {"run": hist_bin("c18"), "replay": hist_replay("c18"),
                "technique": "exhaustive DFS over all operation histories up to a depth bound on the real structures, reference closure compared after every operation",
                "assumptions": COMMON_ASSUME + ["4 (and 5) elements; histories up to depth 6/7 (TrRelUnionFind), 5/6 (UnionFind)"]}
def c20_run(prop, tier, seed):
    build_sched()
    sizes = ["1", "2", "3"]
    cons = ["g", "1", "2", "3"]
    names = ["instances", "instances-pools", "instances-pools-rev"]
    for prog in ("tc", "scan", "lat", "init"):
        for c in cons:
            for r1 in sizes:
                for r2 in sizes:
                    names.append("%s:%s:%s:%s" % (prog, c, r1, r2))
        # nested pools and (thorough) a third run
        names += ["%s:2in3:3:1" % prog, "%s:3:2in3:1" % prog, "%s:1:3:2in3" % prog]
        if tier == "thorough":
            for c in cons:
                for r1 in sizes:
                    for r2 in sizes:
                        for r3 in sizes:
                            if r3 != r2:
                                names.append("%s:%s:%s:%s:%s" % (prog, c, r1, r2, r3))
    rep = run_sched(prop, "pools", names, tier, seed)
    rep["extras"] = {"configurations": len(names), "programs": 4,
                     "executions_per_configuration": "see parts; every configuration runs in a fresh process (process-wide shard count cache)"}
    return [rep]


SPECS["C20"] = {"run": c20_run, "replay": sched_replay("pools"),
                "technique": "exhaustive enumeration of pool configurations (pool at construction x pool at each run, sizes 1-3, global, nested; one process each) x deviation-bounded exhaustive schedule exploration under vsched; plus concurrently running program instances",
                "assumptions": COMMON_ASSUME + ["pool sizes 1..3; deviation bound 2 (3 thorough)", "executor shim models rayon's contract, not its stealing heuristics"]}


def c19_replay(prop, path, tier, seed):
    r = json.load(open(path))["replay"]
    return sched_replay("idx")(prop, path, tier, seed) if isinstance(r, dict) and "harness" in r else hist_replay("c19")(prop, path, tier, seed)


SPECS["C19"] = {"run": c19_run, "replay": c19_replay,
                "technique": "exhaustive DFS over all operation histories on every real index type vs a reference multimap (serial part)",
                "assumptions": COMMON_ASSUME + ["2 keys (same shard / different shards) x 2 values; depth 5 (6 thorough)"]}

"""C15: ill-formed programs are rejected at compile time, never miscompiled.

Every single application of each listed violation at every position of a set of well-formed base programs,
under all four macros.
Stage 1 (all mutants): the real macro implementation is run inside rustc through the hook macro
  verif_expand_status!  ->  rejected with an error / accepted / panicked.
Stage 2 (mutants the macro accepted + one representative per class and macro): rustc is the judge. The
  programs are compiled as modules of real crates; a module that produces no error compiles and would silently
  evaluate the construct.
"""
import json, os, re, subprocess, time
from vlib.driver import ROOT, ENGINES, TARGET, MachineryError, cargo_env, log, cargo_build

REL = os.path.join(TARGET, "release")
C15 = os.path.join(ROOT, "build", "c15")
KINDS = ["ascent", "ascent_par", "ascent_run", "ascent_run_par"]


# ------------------------------------------------------------------------------------------------ text helpers
def find_calls(line, name):
    """positions (start, open_paren, close_paren) of NAME(...) in line (balanced)"""
    out = []
    for m in re.finditer(r"(?<![A-Za-z0-9_!$:])%s\(" % re.escape(name), line):
        i = m.end() - 1
        depth, j = 0, i
        while j < len(line):
            if line[j] == "(":
                depth += 1
            elif line[j] == ")":
                depth -= 1
                if depth == 0:
                    break
            j += 1
        out.append((m.start(), i, j))
    return out


def split_args(s):
    args, depth, cur = [], 0, ""
    for ch in s:
        if ch in "([{":
            depth += 1
        elif ch in ")]}":
            depth -= 1
        if ch == "," and depth == 0:
            args.append(cur.strip())
            cur = ""
        else:
            cur += ch
    if cur.strip():
        args.append(cur.strip())
    return args


def rule_parts(line):
    """(heads_text, body_text or None)"""
    if "<--" in line:
        h, b = line.split("<--", 1)
        return h.strip(), b.strip().rstrip(";").strip()
    return line.rstrip(";").strip(), None


def body_items(body):
    return split_args(body)


# ------------------------------------------------------------------------------------------------ mutants
def mutants_of(base):
    """yields (class, position, items) for one well-formed base program"""
    items = base["items"]
    rels = base["rels"]
    nrels, nmac = base["nrels"], base["nmacros"]
    names = [r["name"] for r in rels]
    first_rule = nrels + nmac
    rule_idx = list(range(first_rule, len(items)))
    unary = next((r["name"] for r in rels if r["arity"] == 1 and not r["lattice"]), None)

    def with_item(i, new):
        it = list(items)
        it[i] = new
        return it

    # macro definitions that are never invoked are never expanded: what their body says is not a use
    mac_names = {re.match(r"macro (\w+)\(", items[i]).group(1): i for i in range(nrels, first_rule)}
    invoked, todo = set(), [items[i] for i in rule_idx]
    while todo:
        txt = todo.pop()
        for n, i in mac_names.items():
            if n not in invoked and re.search(r"\b%s!\(" % n, txt):
                invoked.add(n)
                todo.append(items[i])
    live_items = [i for i in range(nrels, len(items)) if i >= first_rule or any(mac_names.get(n) == i for n in invoked)]
    # 1/2: undeclared relation and wrong arity at every atom occurrence (heads, bodies, aggregates, negations, bodies of invoked macros)
    for i in live_items:
        line = items[i]
        for name in names:
            for k, (st, op, cl) in enumerate(find_calls(line, name)):
                where = "item%d:%s#%d" % (i, name, k)
                yield ("undeclared-relation", where, with_item(i, line[:st] + "undeclared_rel" + line[st + len(name):]))
                args = split_args(line[op + 1:cl])
                yield ("arity-plus-one", where, with_item(i, line[:cl] + (", " if args else "") + "_x_extra" + line[cl:]))
                if len(args) >= 2:
                    yield ("arity-minus-one", where, with_item(i, line[:op + 1] + ", ".join(args[:-1]) + line[cl:]))
    # 3: aggregate / negate a relation inside its own recursive stratum
    for i in rule_idx:
        heads, body = rule_parts(items[i])
        if body is None:
            continue
        hcalls = [(n, find_calls(heads, n)) for n in names]
        hcalls = [(n, c[0]) for n, c in hcalls if c]
        if not hcalls:
            continue
        hname, (st, op, cl) = hcalls[0]
        ar = next(r["arity"] for r in rels if r["name"] == hname)
        wild = ", ".join(["_"] * ar)
        yield ("negation-in-own-stratum", "item%d:direct" % i, with_item(i, "%s <-- %s, !%s(%s);" % (heads, body, hname, wild)))
        yield ("aggregate-in-own-stratum", "item%d:direct" % i, with_item(i, "%s <-- %s, agg cnt_ = ::ascent::aggregators::count() in %s(%s);" % (heads, body, hname, wild)))
        if unary is not None:
            # through a second rule: aux is derived from the head relation and negated in the rule deriving the head relation
            aux_decl = "relation aux_rel(i32);"
            aux_rule = "aux_rel(0) <-- %s(%s);" % (hname, wild)
            it = list(items[:nrels]) + [aux_decl] + list(items[nrels:])
            it[i + 1] = "%s <-- %s, !aux_rel(_);" % (heads, body)
            yield ("negation-in-own-stratum", "item%d:via-second-rule" % i, it + [aux_rule])
            it2 = list(items[:nrels]) + [aux_decl] + list(items[nrels:])
            it2[i + 1] = "%s, aux_rel(1) <-- %s, agg cnt_ = ::ascent::aggregators::count() in aux_rel(_);" % (heads, body)
            yield ("aggregate-in-own-stratum", "item%d:via-multi-head" % i, it2)
    # 4: rebinding an already bound variable, after every body item
    for i in rule_idx:
        heads, body = rule_parts(items[i])
        if body is None:
            continue
        bis = body_items(body)
        m = re.search(r"\b(x\d+|[a-z]\w*)\b", re.sub(r"^[^(]*\(", "", bis[0]))
        vars_in_first = re.findall(r"(?<![\w$!])(x\d+)(?![\w(!])", bis[0])
        if not vars_in_first or bis[0].lstrip().startswith(("for ", "agg ", "let ", "if ", "!", "(")) or "!(" in bis[0]:
            continue
        var = vars_in_first[0]
        rebinders = [("let", "let %s = 1" % var), ("if-let", "if let Some(%s) = vfn::half(2)" % var), ("generator", "for %s in 0..2" % var)]
        if unary is not None:
            rebinders.append(("pattern-arg", "%s(?%s)" % (unary, var)))
            rebinders.append(("agg-pattern", "agg %s = ::ascent::aggregators::count() in undeclared_ok_%s(_)" % (var, unary)))
        # ... and by a condition attached to the very clause that binds it
        if " if " not in bis[0] and " let " not in bis[0]:
            for rname, rb in (("attached-if-let", "if let Some(%s) = vfn::half(2)" % var), ("attached-let", "let %s = 1" % var)):
                nb = [bis[0] + " " + rb] + bis[1:]
                yield ("rebinding-" + rname, "item%d:attached-to-first-clause" % i, with_item(i, "%s <-- %s;" % (heads, ", ".join(nb))))
        for pos in range(1, len(bis) + 1):
            for rname, rb in rebinders:
                if rname == "agg-pattern":
                    rb = rb.replace("undeclared_ok_", "")
                nb = bis[:pos] + [rb] + bis[pos:]
                yield ("rebinding-" + rname, "item%d:after-body-item-%d" % (i, pos), with_item(i, "%s <-- %s;" % (heads, ", ".join(nb))))
    # 5: self-referential and mutually recursive macros, in body and head position
    if unary is not None and rule_idx:
        i = rule_idx[0]
        heads, body = rule_parts(items[i])
        decls = list(items[:nrels])
        rest = list(items[nrels:])
        if body is not None:
            v0 = re.findall(r"(?<![\w$!])(x\d+)(?![\w(!])", body)
            if v0:
                v0 = v0[0]
                yield ("recursive-macro", "body:self", decls + ["macro rec_m($x: ident) { %s($x), rec_m!($x) }" % unary] + rest[:i - nrels] + ["%s <-- %s, rec_m!(%s);" % (heads, body, v0)] + rest[i - nrels + 1:])
                yield ("recursive-macro", "body:mutual", decls + ["macro rec_a($x: ident) { rec_b!($x) }", "macro rec_b($x: ident) { %s($x), rec_a!($x) }" % unary] + rest[:i - nrels] + ["%s <-- %s, rec_a!(%s);" % (heads, body, v0)] + rest[i - nrels + 1:])
                yield ("recursive-macro", "head:self", decls + ["macro rec_h($x: ident) { %s($x), rec_h!($x) }" % unary] + rest[:i - nrels] + ["rec_h!(%s) <-- %s;" % (v0, body)] + rest[i - nrels + 1:])
                yield ("recursive-macro", "body:self-inside-disjunction", decls + ["macro rec_d($x: ident) { (%s($x) | rec_d!($x)) }" % unary] + rest[:i - nrels] + ["%s <-- %s, rec_d!(%s);" % (heads, body, v0)] + rest[i - nrels + 1:])
    # 7: data structure provider on a lattice; several ds attributes
    for i in range(nrels):
        if items[i].startswith("lattice "):
            yield ("ds-on-lattice", "item%d" % i, with_item(i, "#[ds(::ascent_byods_rels::eqrel)] " + items[i]))
        elif items[i].startswith("relation ") and rels[i]["arity"] == 2:
            yield ("two-ds-attributes", "item%d" % i, with_item(i, "#[ds(::ascent_byods_rels::eqrel)] #[ds(::ascent_byods_rels::eqrel)] " + items[i]))
    # 8: unknown attributes
    yield ("unknown-inner-attribute", "program", ["#![no_such_ascent_attribute]"] + list(items))
    yield ("unknown-inner-attribute", "program:with-argument", ["#![measure_rule_times(yes)]"] + list(items))
    for i in range(min(nrels, 2)):
        yield ("unknown-relation-attribute", "item%d" % i, with_item(i, "#[no_such_relation_attribute] " + items[i]))
    yield ("inter-rule-parallelism-on-serial-macro", "program", ["#![inter_rule_parallelism]"] + list(items))


def wrap_program(kind, items, struct=True):
    inner = [it for it in items if it.startswith("#![")]
    rest = [it for it in items if not it.startswith("#![")]
    lines = inner + (["pub struct P;"] if struct else []) + rest
    return "%s { %s }" % (kind, " ".join(lines))


def applies(cls, kind):
    if cls == "inter-rule-parallelism-on-serial-macro":
        return "par" not in kind
    return True


# ------------------------------------------------------------------------------------------------ stage 1
def stage1(mutants, tier):
    """mutants: list of dict(id, cls, where, items, base). returns {(id, kind): (status, msg)}"""
    d = os.path.join(C15, "stage1")
    nsh = 16
    os.makedirs(d, exist_ok=True)
    members = []
    for sh in range(nsh):
        cname = "c15s1_%02d" % sh
        members.append(cname)
        src = ["// generated: stage 1 of C15 (the real macro implementation run through verif_expand_status!)", "fn main() {", "    let res: Vec<(usize, usize, u8, &str)> = vec!["]
        for m in mutants:
            if m["id"] % nsh != sh:
                continue
            for ki, kind in enumerate(KINDS):
                if not applies(m["cls"], kind):
                    continue
                src.append("        { let r: (u8, &str) = ::ascent::verif_expand_status!(%s); (%d, %d, r.0, r.1) }," % (wrap_program(kind, m["items"]), m["id"], ki))
        src += ["    ];", "    for (id, k, st, msg) in res { println!(\"{}\\t{}\\t{}\\t{}\", id, k, st, msg.replace('\\n', \" \").replace('\\t', \" \")); }", "}"]
        write_if_changed(os.path.join(d, cname, "src", "main.rs"), "\n".join(src) + "\n")
        write_if_changed(os.path.join(d, cname, "Cargo.toml"), "[package]\nname = \"%s\"\nversion = \"0.1.0\"\nedition = \"2021\"\n\n[dependencies]\nascent = { path = \"/repo/ascent\", features = [\"verif-hooks\"] }\n" % cname)
    write_if_changed(os.path.join(d, "Cargo.toml"), "[workspace]\nmembers = [%s]\nresolver = \"2\"\n\n[profile.release]\nopt-level = 0\ndebug = false\n" % ", ".join('"%s"' % m for m in members))
    lock = os.path.join(d, "Cargo.lock")
    if not os.path.exists(lock):
        open(lock, "w").write(open(os.path.join(ENGINES, "Cargo.lock")).read())
    cargo_build(d, ["--release"], env={"CARGO_TARGET_DIR": os.path.join(ROOT, "build", "target-c15")})
    out = {}
    for cname in members:
        p = subprocess.run([os.path.join(ROOT, "build", "target-c15", "release", cname)], capture_output=True, text=True)
        if p.returncode != 0:
            raise MachineryError("stage 1 binary %s failed: %s" % (cname, p.stderr[-500:]))
        for line in p.stdout.splitlines():
            a = line.split("\t", 3)
            out[(int(a[0]), KINDS[int(a[1])])] = (int(a[2]), a[3] if len(a) > 3 else "")
    return out


def write_if_changed(path, content):
    os.makedirs(os.path.dirname(path), exist_ok=True)
    if os.path.exists(path) and open(path).read() == content:
        return
    open(path, "w").write(content)


# ------------------------------------------------------------------------------------------------ stage 2
def stage2(cases):
    """cases: list of dict(key, kind, items, extra_text). Returns {key: [error messages]} ; a case with no error compiles."""
    d = os.path.join(C15, "stage2")
    os.makedirs(os.path.join(d, "src"), exist_ok=True)
    write_if_changed(os.path.join(d, "Cargo.toml"), "[package]\nname = \"c15s2\"\nversion = \"0.1.0\"\nedition = \"2021\"\n\n[dependencies]\nascent = { path = \"/repo/ascent\" }\nascent-byods-rels = { path = \"/repo/byods/ascent-byods-rels\" }\nprog = { path = \"%s/prog\" }\n\n[workspace]\n\n[profile.release]\nopt-level = 0\ndebug = false\n" % ENGINES)
    lock = os.path.join(d, "Cargo.lock")
    if not os.path.exists(lock):
        open(lock, "w").write(open(os.path.join(ENGINES, "Cargo.lock")).read())
    errors = {c["key"]: [] for c in cases}
    remaining = list(cases)
    rounds = 0
    while remaining and rounds < 8:
        rounds += 1
        src = ["#![allow(warnings)]"]
        ranges = []
        for c in remaining:
            start = len(src) + 1
            src.append("pub mod m_%s {" % re.sub(r"\W", "_", str(c["key"])))
            src.append("    use prog::vfn;")
            if c.get("raw"):
                src.extend("    " + l for l in c["raw"])
            elif "run" in c["kind"]:
                src.append("    pub fn f() { let _r = ::ascent::%s! { %s }; }" % (c["kind"], " ".join(c["items"])))
            else:
                inner = [it for it in c["items"] if it.startswith("#![")]
                rest = [it for it in c["items"] if not it.startswith("#![")]
                src.append("    ::ascent::%s! {" % c["kind"])
                for it in inner + ["pub struct P;"] + rest:
                    src.append("        " + it)
                src.append("    }")
            src.append("}")
            ranges.append((start, len(src), c["key"]))
        src.append("fn main() {}")
        open(os.path.join(d, "src", "main.rs"), "w").write("\n".join(src) + "\n")
        p = subprocess.run(["cargo", "build", "--offline", "--release", "--message-format=json"], cwd=d, env=cargo_env({"CARGO_TARGET_DIR": os.path.join(ROOT, "build", "target-c15")}), capture_output=True, text=True)
        hit = set()
        for line in p.stdout.splitlines():
            try:
                j = json.loads(line)
            except Exception:
                continue
            if j.get("reason") != "compiler-message":
                continue
            msg = j["message"]
            if msg.get("level") != "error":
                continue
            spans = [s for s in msg.get("spans", []) if s.get("file_name", "").endswith("src/main.rs")]
            # follow macro expansion back to the call site in our file
            def site(s):
                while s.get("expansion") and not s.get("file_name", "").endswith("src/main.rs"):
                    s = s["expansion"]["span"]
                return s
            lines = [site(s)["line_start"] for s in msg.get("spans", []) if site(s).get("file_name", "").endswith("src/main.rs")]
            for (a, b, key) in ranges:
                if any(a <= ln <= b for ln in lines):
                    errors[key].append(msg.get("message", ""))
                    hit.add(key)
        if p.returncode == 0:
            break
        if not hit:
            raise MachineryError("stage 2: the crate fails to compile but no error could be attributed to a program:\n" + p.stderr[-1500:])
        remaining = [c for c in remaining if c["key"] not in hit]
    return errors, [c["key"] for c in remaining]


# ------------------------------------------------------------------------------------------------ main
def run(prop, tier, seed):
    t0 = time.time()
    cargo_build(ENGINES, ["--release", "-p", "prog", "--bin", "pgen"])
    bases = []
    sel = [("scc", 40 if tier == "quick" else 10), ("agg", 20 if tier == "quick" else 5), ("lat", 14 if tier == "quick" else 4), ("macro", 28 if tier == "quick" else 7), ("sugar", 200 if tier == "quick" else 50)]
    for fam, step in sel:
        p = subprocess.run([os.path.join(REL, "pgen"), "--describe-all", fam, "quick", str(step)], capture_output=True, text=True)
        if p.returncode != 0:
            raise MachineryError("pgen --describe-all failed: " + p.stderr[-500:])
        bases += json.loads(p.stdout)
    mutants = []
    for b in bases:
        for cls, where, items in mutants_of(b):
            mutants.append({"id": len(mutants), "cls": cls, "where": where, "items": items, "base": "%s#%d" % (b["family"], b["unit"]), "tag": b["tag"]})
    log("C15: %d base programs, %d ill-formed variants" % (len(bases), len(mutants)))
    s1 = stage1(mutants, tier)
    vio, sigs = [], {}
    stats = {"rejected_by_macro": 0, "accepted_by_macro": 0, "panicked": 0}
    by_cls = {}
    to_stage2 = []
    reps_done = set()
    for m in mutants:
        for kind in KINDS:
            if not applies(m["cls"], kind):
                continue
            st, msg = s1[(m["id"], kind)]
            by_cls.setdefault(m["cls"], {"rejected_by_macro": 0, "sent_to_rustc": 0})
            if st == 1:
                stats["rejected_by_macro"] += 1
                by_cls[m["cls"]]["rejected_by_macro"] += 1
                # one representative per class and macro also goes to rustc: the rejection must surface as a compile error at the program
                if (m["cls"], kind) not in reps_done:
                    reps_done.add((m["cls"], kind))
                    to_stage2.append({"key": "%d_%s" % (m["id"], kind), "kind": kind, "items": m["items"], "m": m, "expect": "macro-error"})
            elif st == 2:
                stats["panicked"] += 1
                sig = "C15|%s|%s|macro-panicked" % (m["cls"], kind)
                sigs[sig] = sigs.get(sig, 0) + 1
                vio.append({"sig": sig, "desc": "%s at %s of %s under %s!: the macro panicked: %s -- program: %s" % (m["cls"], m["where"], m["base"], kind, msg[:200], " ".join(m["items"])),
                            "replay": {"class": m["cls"], "where": m["where"], "kind": kind, "program": m["items"]}})
            else:
                stats["accepted_by_macro"] += 1
                by_cls[m["cls"]]["sent_to_rustc"] += 1
                to_stage2.append({"key": "%d_%s" % (m["id"], kind), "kind": kind, "items": m["items"], "m": m, "expect": "rustc-error"})
    # nesting include_source! inside ascent_source! (not an ascent! program: judged by rustc only)
    to_stage2.append({"key": "include_in_source", "kind": "ascent", "items": [], "m": {"cls": "include-source-inside-ascent-source", "where": "crate", "base": "-", "items": ["ascent_source! { outer: include_source!(inner); relation y(i32); }"]},
                      "raw": ["::ascent::ascent_source! { c15_inner: relation z(i32); }", "::ascent::ascent_source! { c15_outer: include_source!(c15_inner); relation y(i32); }"], "expect": "macro-error"})
    log("C15: stage 1 done (%s); %d programs go to rustc" % (stats, len(to_stage2)))
    errors, compiled = stage2(to_stage2)
    for c in to_stage2:
        m = c["m"]
        errs = errors.get(c["key"], [])
        if c["key"] in compiled or not errs:
            sig = "C15|%s|%s|compiles" % (m["cls"], c["kind"])
            sigs[sig] = sigs.get(sig, 0) + 1
            vio.append({"sig": sig, "desc": "%s at %s of %s under %s!: the ill-formed program compiles -- program: %s" % (m["cls"], m["where"], m["base"], c["kind"], " ".join(m["items"])),
                        "replay": {"class": m["cls"], "where": m["where"], "kind": c["kind"], "program": m["items"]}})
        elif any("panicked" in e for e in errs):
            sig = "C15|%s|%s|proc-macro-panicked" % (m["cls"], c["kind"])
            sigs[sig] = sigs.get(sig, 0) + 1
            vio.append({"sig": sig, "desc": "%s at %s of %s under %s!: %s -- program: %s" % (m["cls"], m["where"], m["base"], c["kind"], errs[0][:200], " ".join(m["items"])),
                        "replay": {"class": m["cls"], "where": m["where"], "kind": c["kind"], "program": m["items"]}})
    n_cases = sum(1 for m in mutants for k in KINDS if applies(m["cls"], k))
    samples = [{"class": m["cls"], "where": m["where"], "program": m["items"]} for m in mutants[:: max(1, len(mutants) // 4)]][:4]
    return [{"part": "ill-formed", "states": n_cases + 1, "transitions": n_cases + len(to_stage2), "executions": n_cases + len(to_stage2), "evaluations": n_cases,
             "nontrivial": stats["rejected_by_macro"] + stats["accepted_by_macro"], "exhaustive": True, "caps_hit": [], "samples": samples,
             "extras": {"base_programs": len(bases), "ill_formed_variants": len(mutants), "macro_kinds": 4, "stage1": stats, "per_class": by_cls, "stage2_programs": len(to_stage2),
                        "stage2_compiled_without_error": len(compiled)},
             "violations": vio[:80], "violation_total": len(vio), "sig_counts": sigs,
             "rule": "every single application of each listed violation (undeclared relation, arity +-1, aggregate / negation in own stratum directly / via a second rule / via a multi-head rule, rebinding by let / if-let / generator / pattern argument / aggregate pattern after every body item and by a condition attached to the binding clause itself, self- and mutually-recursive macros in body / head / disjunction, ds attribute on a lattice, two ds attributes, unknown attributes, inter_rule_parallelism on a serial macro, include_source inside ascent_source) at every position of the base programs x the four macros; stage 1 runs the real macro implementation inside rustc, stage 2 lets rustc judge every variant the macro accepted plus one representative per class and macro",
             "wall_s": time.time() - t0}]

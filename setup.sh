#!/bin/sh
# Builds the framework offline from files on disk only.
set -e
cd "$(dirname "$0")"
export CARGO_NET_OFFLINE=true
export CARGO_TARGET_DIR="$PWD/build/target"
mkdir -p build/out evidence replays
(cd engines && cargo build --release --offline -p hist 2>&1 | tail -3)
echo "setup ok"

#!/bin/sh
# Builds the framework offline from files on disk only (engines, scheduler shims, generated program crates),
# and runs the engine self-tests.
set -e
cd "$(dirname "$0")"
export CARGO_NET_OFFLINE=true
mkdir -p build/out evidence replays
(cd engines && CARGO_TARGET_DIR="$PWD/../build/target" cargo build --release --offline 2>&1 | tail -2)
./build/target/release/pgen --selftest
engines/sched/mkshims.sh
(cd engines/sched && CARGO_TARGET_DIR="$PWD/../../build/target-sched" cargo build --release --offline 2>&1 | tail -2)
./build/target-sched/release/selftest | tail -1
# pre-build the quick-tier program families so that the quick commands only have to run them
python3 - <<'PY'
import sys
sys.path.insert(0, '.')
from vlib import props
for fam in props.QUICK_FAMILIES:
    props.build_family(fam, "quick")
# the Miri builds of the race harnesses (engines/race), run once
for b in ("idx", "par"):
    r = props.race_part("C19" if b == "idx" else "C02", b)
    print("race harness %s under miri:" % b, "ok" if r["violation_total"] == 0 else r["violations"][0]["desc"])
PY
echo "setup ok"

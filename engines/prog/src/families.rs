//! Program families (DESIGN.md 3.3). Every family is enumerated completely up to its bound,
//! canonical by construction (variables are numbered by first occurrence).
use crate::ast::*;

#[derive(Clone, Debug, PartialEq, Eq, Hash)]
pub enum MacroKind { Ascent, AscentPar, AscentRun, AscentRunPar }

#[derive(Clone, Debug)]
pub struct Variant {
    pub label: String,
    /// the program text of this variant is printed from `prog` (may differ from the unit's
    /// reference program: sugared form, permuted rules, renamed variables ...)
    pub prog: Prog,
    pub kind: MacroKind,
    /// inner attributes, e.g. "#![measure_rule_times]"
    pub attrs: Vec<String>,
    /// for each relation of the reference program: index of the relation in this variant's program
    pub rel_map: Vec<usize>,
    pub var_names: std::collections::HashMap<Var, String>,
    /// items (indices into printed items) moved into an ascent_source! block: (start, end)
    pub include_block: Option<(usize, usize)>,
    pub generic: bool,
    /// packaging flags: "init-tls" (input relations declared as `relation r(..) = <expr>`), "redecl" (every
    /// relation is declared twice, the first time with a bogus initialiser)
    pub flags: Vec<String>,
}
impl Variant {
    pub fn plain(p: &Prog) -> Variant {
        Variant { label: "ascent".into(), prog: p.clone(), kind: MacroKind::Ascent, attrs: vec![], rel_map: (0..p.rels.len()).collect(),
            var_names: Default::default(), include_block: None, generic: false, flags: vec![] }
    }
    pub fn with_kind(mut self, k: MacroKind, label: &str) -> Variant { self.kind = k; self.label = label.into(); self }
    pub fn is_par(&self) -> bool { matches!(self.kind, MacroKind::AscentPar | MacroKind::AscentRunPar) }
}

#[derive(Clone, Debug)]
pub struct Unit {
    /// reference semantics: core program (no sugar, no macros)
    pub prog: Prog,
    pub variants: Vec<Variant>,
    /// feature tag used in violation signatures
    pub tag: String,
    /// relations that may receive input facts
    pub input_rels: Vec<usize>,
    /// relations compared with the reference (BYODS relations have no readable vector)
    pub observe: Vec<usize>,
    /// per-relation column domain sizes for input facts (default: prog.n for every column)
    pub domains: std::collections::HashMap<usize, Vec<i32>>,
    /// inputs are enumerated up to renaming of the elements (programs that mention no element constant)
    pub sym: Option<Sym>,
}
/// input sets of at most `max_facts` facts, one representative per orbit of the permutations of the
/// `n_elem` elements acting on the columns `elem_cols` of every input fact
#[derive(Clone, Debug)]
pub struct Sym { pub elem_cols: Vec<usize>, pub n_elem: i32, pub max_facts: usize }
impl Unit {
    pub fn simple(p: Prog, tag: &str) -> Unit {
        let all: Vec<usize> = (0..p.rels.len()).filter(|i| p.rels[*i].ds.is_none()).collect();
        Unit { variants: vec![Variant::plain(&p)], input_rels: all.clone(), observe: all, prog: p, tag: tag.into(), domains: Default::default(), sym: None }
    }
}

// ------------------------------------------------------------------------------------------ F-shape
pub struct ShapeOpts {
    pub max_atoms: usize,
    pub max_nonvar: usize,
    pub exprs: bool,
    pub rels: Vec<usize>,
    pub extras: bool, // conditions / generators
    pub all_heads: bool,
}

fn gen_atoms(p: &Prog, o: &ShapeOpts, atoms_left: usize, bound: &mut Vec<Var>, next: &mut Var, nonvar: usize, prefix_bound: usize,
             cur: &mut Vec<BodyItem>, out: &mut Vec<(Vec<BodyItem>, Vec<Var>)>) {
    if !cur.is_empty() { out.push((cur.clone(), bound.clone())); }
    if atoms_left == 0 { return; }
    for &rel in &o.rels {
        let ar = p.rels[rel].arity;
        // enumerate argument vectors position by position
        fn args_rec(o: &ShapeOpts, ar: usize, pos: usize, bound: &mut Vec<Var>, next: &mut Var, nonvar: usize, prefix_bound: usize,
                    acc: &mut Vec<Arg>, res: &mut Vec<(Vec<Arg>, Vec<Var>, Var, usize)>) {
            if pos == ar { res.push((acc.clone(), bound.clone(), *next, nonvar)); return; }
            // bound variables (from earlier items or earlier in this clause = repeated variable)
            for i in 0..bound.len() {
                let v = bound[i];
                acc.push(Arg::Var(v)); args_rec(o, ar, pos + 1, bound, next, nonvar, prefix_bound, acc, res); acc.pop();
            }
            // fresh variable
            let v = *next; *next += 1; bound.push(v);
            acc.push(Arg::Var(v)); args_rec(o, ar, pos + 1, bound, next, nonvar, prefix_bound, acc, res); acc.pop();
            bound.pop(); *next -= 1;
            if nonvar < o.max_nonvar {
                acc.push(Arg::Expr(Expr::Const(0))); args_rec(o, ar, pos + 1, bound, next, nonvar + 1, prefix_bound, acc, res); acc.pop();
                acc.push(Arg::Wild); args_rec(o, ar, pos + 1, bound, next, nonvar + 1, prefix_bound, acc, res); acc.pop();
                if o.exprs {
                    // expression over the most recently bound variable: either from an earlier item, or from this clause
                    if let Some(&v) = bound.last() {
                        acc.push(Arg::Expr(Expr::Succ(Box::new(Expr::Var(v))))); args_rec(o, ar, pos + 1, bound, next, nonvar + 1, prefix_bound, acc, res); acc.pop();
                    }
                    if prefix_bound > 0 && bound.len() > prefix_bound {
                        let v = bound[0];
                        acc.push(Arg::Expr(Expr::Succ(Box::new(Expr::Var(v))))); args_rec(o, ar, pos + 1, bound, next, nonvar + 1, prefix_bound, acc, res); acc.pop();
                    }
                }
            }
        }
        let mut res = vec![];
        let pb = bound.len();
        args_rec(o, ar, 0, bound, next, nonvar, pb, &mut vec![], &mut res);
        for (args, b2, n2, nv2) in res {
            let (mut b2, mut n2) = (b2, n2);
            cur.push(atom(rel, args));
            gen_atoms(p, o, atoms_left - 1, &mut b2, &mut n2, nv2, pb, cur, out);
            cur.pop();
        }
    }
}

fn heads_for(p: &Prog, bound: &[Var], all: bool, salt: usize) -> Vec<HeadItem> {
    let (pp, q) = (p.rel("p"), p.rel("q"));
    let mut hs = vec![];
    match bound.len() {
        0 => { hs.push(head(q, vec![Expr::Const(0)])); hs.push(head(pp, vec![Expr::Const(1), Expr::Const(0)])); }
        1 => { hs.push(head(q, vec![ev(bound[0])])); hs.push(head(pp, vec![ev(bound[0]), ev(bound[0])])); hs.push(head(pp, vec![Expr::Succ(Box::new(ev(bound[0]))), ev(bound[0])])); }
        _ => {
            let (f, l) = (bound[0], *bound.last().unwrap());
            hs.push(head(pp, vec![ev(f), ev(l)]));
            hs.push(head(pp, vec![ev(l), ev(f)]));
            hs.push(head(q, vec![ev(l)]));
            hs.push(head(pp, vec![ev(f), Expr::Succ(Box::new(ev(l)))]));
        }
    }
    if all { hs } else { vec![hs[salt % hs.len()].clone()] }
}

pub fn shape_schema(n: i32, with_c: bool) -> Prog {
    let mut rels = vec![rel("a", 1), rel("b", 2), rel("p", 2), rel("q", 1)];
    if with_c { rels.push(rel("c", 3)); }
    Prog { rels, rules: vec![], macros: vec![], n }
}

/// all rule shapes in the fixed recursive context `p(x,y) <-- b(x,y); R`
pub fn f_shape(thorough: bool) -> Vec<Unit> {
    let n = domain_n();
    let base = shape_schema(n, false);
    let o = ShapeOpts { max_atoms: 2, max_nonvar: if thorough { 2 } else { 1 }, exprs: thorough, rels: vec![0, 1, 2, 3], extras: true, all_heads: false };
    let mut bodies = vec![];
    gen_atoms(&base, &o, o.max_atoms, &mut vec![], &mut 0, 0, 0, &mut vec![], &mut bodies);
    let mut units = vec![];
    let ctx = rule(vec![head(2, vec![ev(0), ev(1)])], vec![atom(1, vec![v(0), v(1)])]);
    let mut salt = 0usize;
    let mut push = |body: Vec<BodyItem>, bound: &[Var], tag: &str, units: &mut Vec<Unit>, salt: &mut usize| {
        for h in heads_for(&base, bound, o.all_heads, *salt) {
            let mut p = base.clone();
            p.rules = vec![ctx.clone(), rule(vec![h], body.clone())];
            units.push(Unit::simple(p, tag));
        }
        *salt += 1;
    };
    for (body, bound) in &bodies {
        push(body.clone(), bound, "shape", &mut units, &mut salt);
        if !o.extras { continue; }
        // one condition / generator: appended as a separate item, attached to the last clause, or (generators) in front
        let nv = bound.len();
        let fresh: Var = bound.iter().max().map_or(0, |m| m + 1);
        let mut extras: Vec<(Vec<BodyItem>, Vec<Var>, &str)> = vec![];
        let mut conds: Vec<(Cond, Option<Var>)> = vec![];
        if nv >= 2 {
            conds.push((Cond::Ne(ev(bound[0]), ev(bound[nv - 1])), None));
            conds.push((Cond::Lt(ev(bound[0]), ev(bound[nv - 1])), None));
        }
        if nv >= 1 {
            conds.push((Cond::Let(fresh, Expr::Succ(Box::new(ev(bound[nv - 1])))), Some(fresh)));
            conds.push((Cond::IfLetHalf(fresh, ev(bound[0])), Some(fresh)));
            if thorough { conds.push((Cond::Eq(ev(bound[0]), Expr::Const(1)), None)); }
        }
        for (c, newv) in conds {
            let mut b2 = bound.clone();
            if let Some(x) = newv { b2.push(x); }
            // separate item
            let mut sep = body.clone(); sep.push(BodyItem::Cond(c.clone()));
            extras.push((sep, b2.clone(), "shape+cond"));
            // attached to the last clause
            let mut att = body.clone();
            if let Some(BodyItem::Atom(a)) = att.last_mut() { a.conds.push(c.clone()); }
            extras.push((att, b2.clone(), "shape+attached-cond"));
            // attached to the first clause of a two clause body, if it only mentions that clause's variables
            if thorough && body.len() == 2 {
                if let BodyItem::Atom(a0) = &body[0] {
                    let first_vars: Vec<Var> = a0.args.iter().filter_map(|a| if let Arg::Var(v) = a { Some(*v) } else { None }).collect();
                    let uses: Vec<Var> = match &c { Cond::Ne(Expr::Var(a), Expr::Var(b)) | Cond::Lt(Expr::Var(a), Expr::Var(b)) => vec![*a, *b], Cond::IfLetHalf(_, Expr::Var(a)) => vec![*a], _ => vec![255] };
                    if uses.iter().all(|u| first_vars.contains(u)) {
                        let mut att0 = body.clone();
                        if let BodyItem::Atom(a) = &mut att0[0] { a.conds.push(c.clone()); }
                        extras.push((att0, b2.clone(), "shape+cond-on-first-clause"));
                    }
                }
            }
        }
        if nv >= 1 {
            let mut g = body.clone(); g.push(BodyItem::Gen(Gen::Range(fresh)));
            let mut b2 = bound.clone(); b2.push(fresh);
            extras.push((g, b2.clone(), "shape+gen"));
            let mut g2 = body.clone(); g2.push(BodyItem::Gen(Gen::Two(fresh, ev(bound[0]), ev(bound[nv - 1]))));
            extras.push((g2, b2, "shape+gen"));
        }
        // quick tier: two of the extra forms per body, rotating through the list (every form occurs
        // with every k-th body); thorough tier: the full product
        let ne = extras.len();
        for (i, (b, bd, tag)) in extras.into_iter().enumerate() {
            if thorough || (ne > 0 && (i + ne - (salt % ne)) % ne < 2) { push(b, &bd, tag, &mut units, &mut salt); }
        }
    }
    // generator / let in front of the clauses: the clause then starts with a bound variable
    // (also a generator that does not cover the domain: the clauses must not bring values back that it never yields)
    let o2 = ShapeOpts { max_atoms: 2, max_nonvar: if thorough { 1 } else { 0 }, exprs: false, rels: vec![0, 1, 2, 3], extras: false, all_heads: false };
    for front in [BodyItem::Gen(Gen::Range(0)), BodyItem::Cond(Cond::Let(0, Expr::Const(1))), BodyItem::Gen(Gen::Two(0, Expr::Const(0), Expr::Const(0)))] {
        let mut bodies2 = vec![];
        let mut cur = vec![front.clone()];
        gen_atoms_after(&base, &o2, o2.max_atoms, &mut vec![0], &mut 1, 0, &mut cur, &mut bodies2);
        for (body, bound) in bodies2 { push(body, &bound, "shape+front-binder", &mut units, &mut salt); }
    }
    {
        // three-clause bodies with variable arguments only (every binding pattern, every count 0-3 of dynamic clauses);
        // quick tier: every 12th of them
        let o3 = ShapeOpts { max_atoms: 3, max_nonvar: 0, exprs: false, rels: vec![0, 1, 2], extras: false, all_heads: false };
        let mut bodies3 = vec![];
        gen_atoms(&base, &o3, 3, &mut vec![], &mut 0, 0, 0, &mut vec![], &mut bodies3);
        let mut k = 0usize;
        for (body, bound) in bodies3 { if body.len() == 3 { k += 1; if thorough || k % 12 == 0 { push(body, &bound, "shape-3-clauses", &mut units, &mut salt); } } }
    }
    units
}

fn gen_atoms_after(p: &Prog, o: &ShapeOpts, atoms_left: usize, bound: &mut Vec<Var>, next: &mut Var, nonvar: usize, cur: &mut Vec<BodyItem>, out: &mut Vec<(Vec<BodyItem>, Vec<Var>)>) {
    let mut tmp = vec![];
    let start = cur.clone();
    gen_atoms(p, o, atoms_left, bound, next, nonvar, 0, cur, &mut tmp);
    for (b, bd) in tmp { if b.len() > start.len() { out.push((b, bd)); } }
}

// ------------------------------------------------------------------------------------------ F-scc
/// dependency skeletons over derived binary relations r0..r{k-1} and the input relation e
pub fn f_scc(thorough: bool) -> Vec<Unit> {
    let n = domain_n();
    let nder = 3usize;
    let max_rules = if thorough { 4 } else { 3 };
    // rule alphabet: (head, body) with body one of: [e], [rj], [rj, e], [e, rj], [rj, rk]
    #[derive(Clone, PartialEq, Eq, PartialOrd, Ord, Debug)]
    enum B { E, Copy(usize), JoinE(usize), EJoin(usize), Join(usize, usize), Swap(usize) }
    let mut alphabet: Vec<(usize, B)> = vec![];
    for h in 0..nder {
        alphabet.push((h, B::E));
        for j in 0..nder { alphabet.push((h, B::Copy(j))); alphabet.push((h, B::JoinE(j)));
            if thorough { alphabet.push((h, B::EJoin(j))); alphabet.push((h, B::Swap(j))); }
            for k in 0..nder { if thorough || j <= k { alphabet.push((h, B::Join(j, k))); } } }
    }
    let mut sets: Vec<Vec<usize>> = vec![];
    fn choose(n: usize, k: usize, start: usize, cur: &mut Vec<usize>, out: &mut Vec<Vec<usize>>) {
        if cur.len() == k { out.push(cur.clone()); return; }
        for i in start..n { cur.push(i); choose(n, k, i + 1, cur, out); cur.pop(); }
    }
    for k in 1..=max_rules.min(3) { choose(alphabet.len(), k, 0, &mut vec![], &mut sets); }
    let rels_of = |b: &B| -> Vec<usize> { match b { B::E => vec![], B::Copy(j) | B::JoinE(j) | B::EJoin(j) | B::Swap(j) => vec![*j], B::Join(j, k) => vec![*j, *k] } };
    let mut seen = std::collections::BTreeSet::new();
    let mut units = vec![];
    let perms: Vec<Vec<usize>> = vec![vec![0, 1, 2], vec![0, 2, 1], vec![1, 0, 2], vec![1, 2, 0], vec![2, 0, 1], vec![2, 1, 0]];
    for set in sets {
        let rules: Vec<(usize, B)> = set.iter().map(|i| alphabet[*i].clone()).collect();
        // every derived relation mentioned must be the head of some rule; relations used form a prefix
        let heads: Vec<usize> = rules.iter().map(|r| r.0).collect();
        let mut used: Vec<usize> = heads.clone();
        for (_, b) in &rules { used.extend(rels_of(b)); }
        used.sort(); used.dedup();
        if used.iter().any(|r| !heads.contains(r)) { continue; }
        if used != (0..used.len()).collect::<Vec<_>>() { continue; }
        // some rule must read e, otherwise nothing is ever derived from the input relation
        // (facts placed directly in derived relations are covered by programs that do read e as well)
        if !rules.iter().any(|(_, b)| matches!(b, B::E | B::JoinE(_) | B::EJoin(_))) { continue; }
        // canonical under renaming of derived relations
        let ren = |pm: &Vec<usize>| -> Vec<(usize, B)> {
            let mut v: Vec<(usize, B)> = rules.iter().map(|(h, b)| (pm[*h], match b { B::E => B::E, B::Copy(j) => B::Copy(pm[*j]), B::JoinE(j) => B::JoinE(pm[*j]), B::EJoin(j) => B::EJoin(pm[*j]), B::Swap(j) => B::Swap(pm[*j]),
                B::Join(j, k) => { let (a, b) = (pm[*j], pm[*k]); if thorough { B::Join(a, b) } else { B::Join(a.min(b), a.max(b)) } } })).collect();
            v.sort(); v
        };
        let canon = perms.iter().map(|pm| ren(pm)).min().unwrap();
        if !seen.insert(canon.clone()) { continue; }
        // only programs with at least one cycle or at least two strata are interesting beyond F-shape
        let mut p = Prog { rels: vec![rel("e", 2), rel("r0", 2), rel("r1", 2), rel("r2", 2)], rules: vec![], macros: vec![], n };
        p.rels.truncate(1 + used.len());
        for (h, b) in &canon {
            let hd = |a: Var, b: Var| head(1 + h, vec![ev(a), ev(b)]);
            let r = match b {
                B::E => rule(vec![hd(0, 1)], vec![atom(0, vec![v(0), v(1)])]),
                B::Copy(j) => rule(vec![hd(0, 1)], vec![atom(1 + j, vec![v(0), v(1)])]),
                B::Swap(j) => rule(vec![hd(1, 0)], vec![atom(1 + j, vec![v(0), v(1)])]),
                B::JoinE(j) => rule(vec![hd(0, 2)], vec![atom(1 + j, vec![v(0), v(1)]), atom(0, vec![v(1), v(2)])]),
                B::EJoin(j) => rule(vec![hd(0, 2)], vec![atom(0, vec![v(0), v(1)]), atom(1 + j, vec![v(1), v(2)])]),
                B::Join(j, k) => rule(vec![hd(0, 2)], vec![atom(1 + j, vec![v(0), v(1)]), atom(1 + k, vec![v(1), v(2)])]),
            };
            p.rules.push(r);
        }
        units.push(Unit::simple(p, "scc"));
    }
    // multi-head rules and a relation that is head in two SCCs
    let mut p = Prog { rels: vec![rel("e", 2), rel("r0", 2), rel("r1", 2), rel("r2", 2)], rules: vec![], macros: vec![], n };
    p.rules.push(rule(vec![head(1, vec![ev(0), ev(1)]), head(2, vec![ev(1), ev(0)])], vec![atom(0, vec![v(0), v(1)])]));
    p.rules.push(rule(vec![head(3, vec![ev(0), ev(2)]), head(1, vec![ev(2), ev(0)])], vec![atom(1, vec![v(0), v(1)]), atom(2, vec![v(1), v(2)])]));
    units.push(Unit::simple(p.clone(), "scc-multihead"));
    p.rules.push(rule(vec![head(2, vec![ev(0), ev(1)])], vec![atom(3, vec![v(0), v(1)])]));
    units.push(Unit::simple(p, "scc-multihead"));
    units
}

// ------------------------------------------------------------------------------------------ F-lat
pub const LAT_TYPES: [LatTy; 8] = [LatTy::MaxU32, LatTy::DualU32, LatTy::Bool, LatTy::OptU8, LatTy::SetU8, LatTy::BSet2, LatTy::ConstProp, LatTy::TupleU8];

fn succ(e: Expr) -> Expr { Expr::Succ(Box::new(e)) }
fn lhead(rel: usize, keys: Vec<Expr>, l: HArg) -> HeadItem { let mut args: Vec<HArg> = keys.into_iter().map(HArg::E).collect(); args.push(l); HeadItem::H(Head { rel, args }) }
fn catom(rel: usize, args: Vec<Arg>, conds: Vec<Cond>) -> BodyItem { BodyItem::Atom(Atom { rel, args, conds }) }

/// lattice programs: every shipped lattice type usable as a column x the shapes of DESIGN.md C03
pub fn f_lat(thorough: bool) -> Vec<Unit> {
    let n = domain_n();
    let mut units = vec![];
    for ty in LAT_TYPES.iter() {
        let tag = |s: &str| format!("lat-{}-{}", s, crate::print::lat_tag(ty));
        // P1 non recursive: several facts per key are joined; plain relation through an upward closed test
        {
            let mut p = Prog { rels: vec![rel("s", 2), lat("l", 2, ty.clone()), rel("t", 1)], rules: vec![], macros: vec![], n };
            p.rules.push(rule(vec![lhead(1, vec![ev(0)], HArg::LatMk(ev(1)))], vec![atom(0, vec![v(0), v(1)])]));
            p.rules.push(rule(vec![head(2, vec![ev(0)])], vec![catom(1, vec![v(0), v(1)], vec![Cond::LatAbove(1, Expr::Const(1))])]));
            units.push(Unit::simple(p, &tag("nonrec")));
        }
        // P2 recursive through the lattice (shortest-path shape), lattice clause first / second
        for order in 0..2 {
            let mut p = Prog { rels: vec![rel("s", 2), rel("g", 3), lat("l", 2, ty.clone()), rel("t", 1)], rules: vec![], macros: vec![], n };
            p.rules.push(rule(vec![lhead(2, vec![ev(0)], HArg::LatMk(ev(1)))], vec![atom(0, vec![v(0), v(1)])]));
            let lcl = atom(2, vec![v(0), v(1)]);
            let gcl = atom(1, vec![v(0), v(2), v(3)]);
            let body = if order == 0 { vec![lcl, gcl] } else { vec![gcl, lcl] };
            p.rules.push(rule(vec![lhead(2, vec![ev(2)], HArg::LatStep(1, ev(3)))], body));
            p.rules.push(rule(vec![head(3, vec![ev(0)])], vec![atom(2, vec![v(0), v(1)]), BodyItem::Cond(Cond::LatAbove(1, Expr::Const(1)))]));
            units.push(Unit::simple(p, &tag(if order == 0 { "rec" } else { "rec-lat-second" })));
        }
        // P3 ternary lattice, key bound / free / partly bound, wildcard key column
        {
            let mut p = Prog { rels: vec![rel("a", 1), rel("g", 3), lat("l", 3, ty.clone()), rel("t", 1), rel("u", 1), rel("w", 2)], rules: vec![], macros: vec![], n };
            p.rules.push(rule(vec![lhead(2, vec![ev(0), ev(1)], HArg::LatMk(ev(2)))], vec![atom(1, vec![v(0), v(1), v(2)])]));
            p.rules.push(rule(vec![lhead(2, vec![ev(0), ev(3)], HArg::LatStep(2, ev(4)))], vec![atom(2, vec![v(0), v(1), v(2)]), atom(1, vec![v(1), v(3), v(4)])]));
            p.rules.push(rule(vec![head(3, vec![ev(1)])], vec![atom(0, vec![v(0)]), catom(2, vec![v(0), v(1), v(2)], vec![Cond::LatAbove(2, Expr::Const(0))])]));
            p.rules.push(rule(vec![head(4, vec![ev(0)])], vec![catom(2, vec![v(0), Arg::Wild, v(1)], vec![Cond::LatAbove(1, Expr::Const(1))])]));
            p.rules.push(rule(vec![head(5, vec![ev(0), ev(1)])], vec![atom(0, vec![v(0)]), atom(0, vec![v(1)]), catom(2, vec![v(0), v(1), v(2)], vec![Cond::LatAbove(2, Expr::Const(1))])]));
            units.push(Unit::simple(p, &tag("ternary")));
        }
        // P4 two lattices feeding each other
        {
            let mut p = Prog { rels: vec![rel("s", 2), rel("e", 2), lat("l", 2, ty.clone()), lat("m", 2, ty.clone()), rel("t", 1)], rules: vec![], macros: vec![], n };
            p.rules.push(rule(vec![lhead(2, vec![ev(0)], HArg::LatMk(ev(1)))], vec![atom(0, vec![v(0), v(1)])]));
            p.rules.push(rule(vec![lhead(3, vec![ev(0)], HArg::LatStep(1, Expr::Const(1)))], vec![atom(2, vec![v(0), v(1)])]));
            p.rules.push(rule(vec![lhead(2, vec![ev(2)], HArg::LatVar(1))], vec![atom(3, vec![v(0), v(1)]), atom(1, vec![v(0), v(2)])]));
            p.rules.push(rule(vec![head(4, vec![ev(0)])], vec![catom(3, vec![v(0), v(1)], vec![Cond::LatAbove(1, Expr::Const(1))])]));
            units.push(Unit::simple(p, &tag("mutual")));
        }
        // P5 everything lands on one key / a key computed by an expression; lattice without key columns
        {
            let mut p = Prog { rels: vec![rel("s", 2), lat("l", 2, ty.clone()), lat("top", 1, ty.clone()), rel("t", 1)], rules: vec![], macros: vec![], n };
            p.rules.push(rule(vec![lhead(1, vec![Expr::Const(0)], HArg::LatMk(ev(0)))], vec![atom(0, vec![Arg::Wild, v(0)])]));
            p.rules.push(rule(vec![lhead(1, vec![succ(ev(0))], HArg::LatStep(1, Expr::Const(1)))], vec![atom(1, vec![v(0), v(1)])]));
            p.rules.push(rule(vec![lhead(2, vec![], HArg::LatVar(1))], vec![atom(1, vec![Arg::Wild, v(1)])]));
            p.rules.push(rule(vec![head(3, vec![Expr::Const(1)])], vec![catom(2, vec![v(0)], vec![Cond::LatAbove(0, Expr::Const(1))])]));
            units.push(Unit::simple(p, &tag("one-key")));
        }
        // P6 two rules improve the same key in the same iteration; simple join on a lattice in both positions
        {
            let mut p = Prog { rels: vec![rel("s", 2), rel("r", 1), lat("l", 2, ty.clone()), lat("m", 2, ty.clone()), rel("t", 1)], rules: vec![], macros: vec![], n };
            p.rules.push(rule(vec![lhead(2, vec![ev(0)], HArg::LatMk(ev(1)))], vec![atom(0, vec![v(0), v(1)])]));
            p.rules.push(rule(vec![lhead(2, vec![ev(1)], HArg::LatMk(ev(0)))], vec![atom(0, vec![v(0), v(1)])]));
            p.rules.push(rule(vec![lhead(3, vec![ev(0)], HArg::LatStep(1, Expr::Const(0)))], vec![atom(2, vec![v(0), v(1)]), atom(1, vec![v(0)])]));
            p.rules.push(rule(vec![lhead(3, vec![ev(0)], HArg::LatStep(1, Expr::Const(1)))], vec![atom(1, vec![v(0)]), atom(2, vec![v(0), v(1)])]));
            p.rules.push(rule(vec![lhead(2, vec![succ(ev(0))], HArg::LatVar(1))], vec![atom(3, vec![v(0), v(1)])]));
            p.rules.push(rule(vec![head(4, vec![ev(0)])], vec![atom(3, vec![v(0), v(1)]), BodyItem::Cond(Cond::LatAbove(1, Expr::Const(0)))]));
            units.push(Unit::simple(p, &tag("two-rules-join")));
        }
    }
    // P7 the lattice is read by the third body clause and written by the head (the row just read may be the row updated)
    for ty in LAT_TYPES.iter() {
        let mut p = Prog { rels: vec![rel("s", 2), rel("e", 2), lat("l", 2, ty.clone()), rel("t", 1)], rules: vec![], macros: vec![], n };
        p.rules.push(rule(vec![lhead(2, vec![ev(0)], HArg::LatMk(ev(1)))], vec![atom(0, vec![v(0), v(1)])]));
        p.rules.push(rule(vec![lhead(2, vec![ev(2)], HArg::LatStep(3, Expr::Const(1)))], vec![atom(1, vec![v(0), v(1)]), atom(1, vec![v(1), v(2)]), atom(2, vec![v(0), v(3)])]));
        p.rules.push(rule(vec![head(3, vec![ev(0)])], vec![catom(2, vec![v(0), v(1)], vec![Cond::LatAbove(1, Expr::Const(1))])]));
        units.push(Unit::simple(p, &format!("lat-third-clause-{}", crate::print::lat_tag(ty))));
    }
    let _ = thorough;
    units
}

// ------------------------------------------------------------------------------------------ F-latbound (C13 only)
/// a lattice relation read with its lattice column bound by an earlier clause (an all-columns look-up): not a
/// monotone use of the value, so outside C03, but C13 speaks about all programs
pub fn f_latbound(_thorough: bool) -> Vec<Unit> {
    let n = domain_n();
    let mut units = vec![];
    for ty in LAT_TYPES.iter() {
        let t = crate::print::lat_tag(ty);
        if !(t == "maxu32" || t == "setu8" || t == "dualu32") { continue; }
        let mut p = Prog { rels: vec![rel("s", 2), rel("e", 2), lat("l", 2, ty.clone()), lat("m", 2, ty.clone()), rel("t", 1)], rules: vec![], macros: vec![], n };
        p.rules.push(rule(vec![lhead(2, vec![ev(0)], HArg::LatMk(ev(1)))], vec![atom(0, vec![v(0), v(1)])]));
        p.rules.push(rule(vec![lhead(3, vec![ev(0)], HArg::LatMk(ev(1)))], vec![atom(1, vec![v(0), v(1)])]));
        p.rules.push(rule(vec![head(4, vec![ev(0)])], vec![atom(2, vec![v(0), v(1)]), atom(3, vec![v(0), v(1)])]));
        let mut u = Unit::simple(p, &format!("lat-bound-column-{}", crate::print::lat_tag(ty)));
        u.input_rels = vec![0, 1];
        units.push(u);
    }
    units
}

// ------------------------------------------------------------------------------------------ F-agg
fn agg(res: Var, f: AggFn, bound: Option<Var>, rel: usize, args: Vec<Arg>) -> BodyItem { BodyItem::Agg { res, f, bound, rel, args } }

/// stratified aggregation / negation over: an input relation, the output of a non-looping and of a
/// looping stratum, a lattice, a relation that is itself an aggregate result, a relation that is
/// head of two strata
pub fn f_agg(thorough: bool) -> Vec<Unit> {
    let n = domain_n();
    let mut units = vec![];
    // relation ids
    const A: usize = 0; const B: usize = 1; const D: usize = 2; const R: usize = 3; const L: usize = 4; const H: usize = 5; const C: usize = 6; const C2: usize = 7; const NR: usize = 8;
    let base = Prog { rels: vec![rel("a", 1), rel("b", 2), rel("d", 2), rel("r", 2), lat("l", 2, LatTy::MaxU32), rel("h", 2), rel("c", 2), rel("c2", 1), rel("nr", 1)], rules: vec![], macros: vec![], n };
    let prod_d = vec![rule(vec![head(D, vec![ev(1), ev(0)])], vec![atom(B, vec![v(0), v(1)])])];
    let prod_r = vec![rule(vec![head(R, vec![ev(0), ev(1)])], vec![atom(B, vec![v(0), v(1)])]),
                      rule(vec![head(R, vec![ev(0), ev(2)])], vec![atom(R, vec![v(0), v(1)]), atom(B, vec![v(1), v(2)])])];
    let prod_l = vec![rule(vec![lhead(L, vec![ev(0)], HArg::LatMk(ev(1)))], vec![atom(B, vec![v(0), v(1)])])];
    let mut prod_h = prod_r.clone();
    prod_h.push(rule(vec![head(H, vec![ev(0), ev(1)])], vec![atom(B, vec![v(0), v(1)])]));
    prod_h.push(rule(vec![head(H, vec![ev(0), ev(2)])], vec![atom(H, vec![v(0), v(1)]), atom(R, vec![v(1), v(2)])]));
    let sources: Vec<(&str, usize, Vec<Rule>)> = vec![("input", B, vec![]), ("nonlooping", D, prod_d), ("looping", R, prod_r), ("two-strata-head", H, prod_h)];
    let aggs: Vec<(AggFn, &str)> = vec![(AggFn::Count, "count"), (AggFn::Sum, "sum"), (AggFn::Min, "min"), (AggFn::Max, "max"), (AggFn::Mean, "mean"), (AggFn::Percentile50, "percentile"), (AggFn::MinMax, "user-minmax")];
    let mk = |rules: Vec<Rule>, inputs: Vec<usize>, tag: String, units: &mut Vec<Unit>| {
        let mut p = base.clone();
        p.rules = rules;
        // drop unused relations (keeps the compiled program small); remap ids
        let mut used = vec![false; p.rels.len()];
        fn mark(items: &[BodyItem], used: &mut Vec<bool>) { for b in items { match b { BodyItem::Atom(a) => used[a.rel] = true, BodyItem::Agg { rel, .. } | BodyItem::Neg { rel, .. } => used[*rel] = true, BodyItem::Disj(al) => for a in al { mark(a, used) }, _ => {} } } }
        for r in &p.rules { mark(&r.body, &mut used); for h in &r.heads { if let HeadItem::H(h) = h { used[h.rel] = true; } } }
        let map: Vec<usize> = { let mut m = vec![usize::MAX; used.len()]; let mut k = 0; for i in 0..used.len() { if used[i] { m[i] = k; k += 1; } } m };
        fn remap(items: &mut Vec<BodyItem>, map: &Vec<usize>) { for b in items.iter_mut() { match b { BodyItem::Atom(a) => a.rel = map[a.rel], BodyItem::Agg { rel, .. } | BodyItem::Neg { rel, .. } => *rel = map[*rel], BodyItem::Disj(al) => for a in al.iter_mut() { remap(a, map) }, _ => {} } } }
        for r in p.rules.iter_mut() { remap(&mut r.body, &map); for h in r.heads.iter_mut() { if let HeadItem::H(h) = h { h.rel = map[h.rel]; } } }
        p.rels = p.rels.iter().enumerate().filter(|(i, _)| used[*i]).map(|(_, r)| r.clone()).collect();
        let mut u = Unit::simple(p, &tag);
        u.input_rels = inputs.iter().filter(|i| used[**i]).map(|i| map[*i]).collect();
        u.input_rels.sort();
        u.input_rels.dedup();
        // the consumer must wait for its producers whatever the textual order of the rules
        let mut rev = u.variants[0].clone();
        rev.prog.rules.reverse();
        rev.label = "ascent-rules-reversed".into();
        u.variants.push(rev);
        // constants in aggregate / negation arguments written as named constants of the enclosing module: an identifier
        // that is not a variable of the rule is an expression, not a free column
        let const_in_agg = u.prog.rules.iter().any(|r| r.body.iter().any(|b| matches!(b, BodyItem::Agg { args, .. } | BodyItem::Neg { args, .. } if args.iter().any(|a| matches!(a, Arg::Expr(Expr::Const(_)))))));
        if const_in_agg {
            let mut nc = u.variants[0].clone();
            nc.flags.push("named-consts".into());
            nc.label = "ascent-named-constants".into();
            u.variants.push(nc);
        }
        units.push(u);
    };
    for (sname, src, prod) in &sources {
        for (f, fname) in &aggs {
            let is_count = *f == AggFn::Count;
            // keyed: c(x, n) <-- a(x), agg n = F(y) in SRC(x, y)
            let mut rules = prod.clone();
            rules.push(rule(vec![head(C, vec![ev(0), ev(2)])], vec![atom(A, vec![v(0)]),
                agg(2, f.clone(), if is_count { None } else { Some(1) }, *src, vec![v(0), if is_count { Arg::Wild } else { v(1) }])]));
            mk(rules, vec![A, B, *src], format!("agg-{}-{}-keyed", fname, sname), &mut units);
            // unkeyed, aggregate is the first body item: c(0, n) <-- agg n = F(y) in SRC(_, y)
            let mut rules = prod.clone();
            rules.push(rule(vec![head(C, vec![Expr::Const(0), ev(2)])], vec![agg(2, f.clone(), if is_count { None } else { Some(1) }, *src, vec![Arg::Wild, if is_count { Arg::Wild } else { v(1) }])]));
            mk(rules, vec![A, B, *src], format!("agg-{}-{}-unkeyed", fname, sname), &mut units);
            if thorough || matches!(f, AggFn::Count | AggFn::Sum) {
                // aggregated column first, bound column second; constant column
                let mut rules = prod.clone();
                rules.push(rule(vec![head(C, vec![ev(0), ev(2)])], vec![atom(A, vec![v(0)]),
                    agg(2, f.clone(), if is_count { None } else { Some(1) }, *src, vec![if is_count { Arg::Wild } else { v(1) }, v(0)])]));
                mk(rules, vec![A, B, *src], format!("agg-{}-{}-second-column-bound", fname, sname), &mut units);
                let mut rules = prod.clone();
                rules.push(rule(vec![head(C, vec![ev(0), ev(2)])], vec![atom(A, vec![v(0)]),
                    agg(2, f.clone(), if is_count { None } else { Some(1) }, *src, vec![c(1), if is_count { Arg::Wild } else { v(1) }])]));
                mk(rules, vec![A, B, *src], format!("agg-{}-{}-constant-key", fname, sname), &mut units);
            }
        }
        // several positive clauses in front of the aggregate / negation: two clauses that are not a plain simple join
        // (constant argument) and three clauses, all over a relation independent of the aggregated one, which may be empty
        for (f, fname) in &aggs {
            if !(thorough || matches!(f, AggFn::Count | AggFn::Sum | AggFn::MinMax)) { continue; }
            let is_count = *f == AggFn::Count;
            let the_agg = agg(2, f.clone(), if is_count { None } else { Some(1) }, *src, vec![v(0), if is_count { Arg::Wild } else { v(1) }]);
            let mut rules = prod.clone();
            rules.push(rule(vec![head(C, vec![ev(0), ev(2)])], vec![atom(A, vec![v(0)]), atom(A, vec![c(1)]), the_agg.clone()]));
            mk(rules, vec![A, B, *src], format!("agg-{}-{}-after-two-clauses", fname, sname), &mut units);
            let mut rules = prod.clone();
            rules.push(rule(vec![head(C, vec![ev(0), ev(2)])], vec![atom(A, vec![v(0)]), atom(A, vec![v(3)]), atom(A, vec![v(4)]), the_agg]));
            mk(rules, vec![A, B, *src], format!("agg-{}-{}-after-three-clauses", fname, sname), &mut units);
        }
        {
            let mut rules = prod.clone();
            rules.push(rule(vec![head(NR, vec![ev(0)])], vec![atom(A, vec![v(0)]), atom(A, vec![c(1)]), BodyItem::Neg { rel: *src, args: vec![v(0), Arg::Wild] }]));
            mk(rules, vec![A, B, *src], format!("neg-{}-after-two-clauses", sname), &mut units);
            let mut rules = prod.clone();
            rules.push(rule(vec![head(NR, vec![ev(0)])], vec![atom(A, vec![v(0)]), atom(A, vec![v(3)]), atom(A, vec![v(4)]), BodyItem::Neg { rel: *src, args: vec![v(3), Arg::Wild] }]));
            mk(rules, vec![A, B, *src], format!("neg-{}-after-three-clauses", sname), &mut units);
        }
        // negation: bound key, both columns bound, constant, wildcard only
        for (k, args) in [vec![v(0), Arg::Wild], vec![v(0), v(0)], vec![v(0), c(0)], vec![Arg::Wild, v(0)]].into_iter().enumerate() {
            let mut rules = prod.clone();
            rules.push(rule(vec![head(NR, vec![ev(0)])], vec![atom(A, vec![v(0)]), BodyItem::Neg { rel: *src, args }]));
            mk(rules, vec![A, B, *src], format!("neg-{}-{}", sname, k), &mut units);
        }
        // aggregate of an aggregate (depth 2 of the stratum order), and a negation on top of an aggregate
        let mut rules = prod.clone();
        rules.push(rule(vec![head(C, vec![ev(0), ev(2)])], vec![atom(A, vec![v(0)]), agg(2, AggFn::Count, None, *src, vec![v(0), Arg::Wild])]));
        rules.push(rule(vec![head(C2, vec![ev(1)])], vec![agg(1, AggFn::Max, Some(0), C, vec![Arg::Wild, v(0)])]));
        rules.push(rule(vec![head(NR, vec![ev(0)])], vec![atom(A, vec![v(0)]), BodyItem::Neg { rel: C, args: vec![v(0), c(0)] }]));
        mk(rules, vec![A, B, *src], format!("agg-depth2-{}", sname), &mut units);
    }
    // aggregation over a lattice: one row per key
    for (f, fname, bound_key) in [(AggFn::Count, "count", false), (AggFn::Sum, "sum", true), (AggFn::Max, "max", true), (AggFn::MinMax, "user-minmax", true)] {
        let mut rules = prod_l.clone();
        rules.push(rule(vec![head(C, vec![Expr::Const(0), ev(2)])], vec![agg(2, f.clone(), if bound_key { Some(1) } else { None }, L, vec![if bound_key { v(1) } else { Arg::Wild }, Arg::Wild])]));
        mk(rules, vec![A, B, L], format!("agg-{}-lattice-unkeyed", fname), &mut units);
    }
    let mut rules = prod_l.clone();
    rules.push(rule(vec![head(C, vec![ev(0), ev(2)])], vec![atom(A, vec![v(0)]), agg(2, AggFn::Count, None, L, vec![v(0), Arg::Wild])]));
    rules.push(rule(vec![head(NR, vec![ev(0)])], vec![atom(A, vec![v(0)]), BodyItem::Neg { rel: L, args: vec![v(0), Arg::Wild] }]));
    mk(rules, vec![A, B, L], "agg-count-lattice-keyed".into(), &mut units);
    units
}

// ------------------------------------------------------------------------------------------ F-timeout
/// programs compiled with #![generate_run_timeout]: a cut through F-scc, F-lat and F-agg
pub fn f_timeout(thorough: bool) -> Vec<Unit> {
    let mut out = vec![];
    let step = if thorough { 3 } else { 9 };
    for (i, u) in f_scc(false).into_iter().enumerate() { if i % step == 0 || u.tag == "scc-multihead" { out.push(u); } }
    for u in f_lat(false) { if thorough || u.tag.ends_with("dualu32") || u.tag.ends_with("setu8") || u.tag.ends_with("constprop") { out.push(u); } }
    for (i, u) in f_agg(false).into_iter().enumerate() { if i % (if thorough { 4 } else { 12 }) == 0 { out.push(u); } }
    // BYODS relations computed in one stratum and read in a later one / in the same one
    for u in f_ds(false) {
        if u.sym.is_some() || u.tag.contains("ternary") { continue; }
        if (thorough && !u.tag.contains("self-feeding")) || u.tag.starts_with("ds-eqrel-binary-clocked-readers-in-later") || u.tag.starts_with("ds-trrel-binary-two-strata-readers-in-recursive") || u.tag.starts_with("ds-trrel_uf-binary-clocked-readers-in-later") || u.tag.starts_with("ds-trrel-binary-clocked-readers-in-later") { out.push(u); }
    }
    for u in out.iter_mut() {
        u.variants.truncate(1);
        u.variants[0].attrs = vec!["#![generate_run_timeout]".into()];
        u.variants[0].label = "ascent+generate_run_timeout".into();
    }
    out
}

// ------------------------------------------------------------------------------------------ F-ds
fn fact(rel: usize, consts: Vec<i32>) -> Rule { rule(vec![head(rel, consts.into_iter().map(Expr::Const).collect())], vec![]) }
fn never() -> BodyItem { BodyItem::Cond(Cond::Lt(Expr::Const(1), Expr::Const(0))) }

/// BYODS relations: a clocked feeder decides in which iteration of the recursive stratum each pair
/// arrives (the input relation `sched(i, [k,] a, b)` is literally the insertion history); one reader
/// rule per access pattern, placed in a later stratum or inside the recursive stratum.
pub fn f_ds(thorough: bool) -> Vec<Unit> {
    let t_max = 2;
    let mut units = vec![];
    // deep: 4 elements, all histories of <= 4 insertions up to renaming of the elements (programs without element constants)
    for deep in [false, true] {
    let n = if deep { 4 } else { 3 };
    for ds in [Ds::Eqrel, Ds::Trrel, Ds::TrrelUf] {
        let dsname = match ds { Ds::Eqrel => "eqrel", Ds::Trrel => "trrel", Ds::TrrelUf => "trrel_uf" };
        for ternary in [false, true] {
            let k = if ternary { 1 } else { 0 };
            // feeders: clocked (pairs arrive over several iterations), at-once (non looping stratum),
            // two-strata (time 0 in a non looping stratum, later times clocked), self-feeding
            for feeder in ["clocked", "at-once", "two-strata", "self-feeding"] {
                if ternary && feeder == "self-feeding" && !thorough { continue; }
                for inside in [false, true] {
                    if feeder == "at-once" && inside { continue; }
                    // relation table
                    let mut rels = vec![rel("step", 1), rel("sched", 3 + k), RelDecl { name: "r".into(), arity: 2 + k, lat: None, ds: Some(ds.clone()) }, rel("dom", 1), rel("pair", 2)];
                    const STEP: usize = 0; const SCHED: usize = 1; const R: usize = 2; const DOM: usize = 3; const PAIR: usize = 4;
                    let mut rules = vec![];
                    for d in 0..n { rules.push(fact(DOM, vec![d])); }
                    for d in 0..n { for e in 0..n { rules.push(fact(PAIR, vec![d, e])); } }
                    // variables: 0 = i (time), 1 = key, 2 = a, 3 = b
                    let kv: Vec<Arg> = if ternary { vec![v(1)] } else { vec![] };
                    let ke: Vec<Expr> = if ternary { vec![ev(1)] } else { vec![] };
                    let mut sched_args = vec![v(0)]; sched_args.extend(kv.clone()); sched_args.push(v(2)); sched_args.push(v(3));
                    let mut r_head = ke.clone(); r_head.push(ev(2)); r_head.push(ev(3));
                    let clock = |rules: &mut Vec<Rule>| {
                        rules.push(fact(STEP, vec![0]));
                        rules.push(rule(vec![head(STEP, vec![succ(ev(0))])], vec![catom(STEP, vec![v(0)], vec![Cond::Lt(ev(0), Expr::Const(t_max))])]));
                        // never-firing back edge: ties r into the clock's stratum
                        let mut ra = kv.clone(); ra.push(v(2)); ra.push(v(3));
                        rules.push(rule(vec![head(STEP, vec![ev(2)])], vec![atom(R, ra), never()]));
                    };
                    match feeder {
                        "clocked" | "self-feeding" => {
                            clock(&mut rules);
                            rules.push(rule(vec![head(R, r_head.clone())], vec![atom(STEP, vec![v(0)]), atom(SCHED, sched_args.clone())]));
                        }
                        "at-once" => {
                            let mut sa = vec![Arg::Wild]; sa.extend(kv.clone()); sa.push(v(2)); sa.push(v(3));
                            rules.push(rule(vec![head(R, r_head.clone())], vec![atom(SCHED, sa)]));
                        }
                        _ => {
                            let mut sa = vec![c(0)]; sa.extend(kv.clone()); sa.push(v(2)); sa.push(v(3));
                            rules.push(rule(vec![head(R, r_head.clone())], vec![atom(SCHED, sa)]));
                            clock(&mut rules);
                            rules.push(rule(vec![head(R, r_head.clone())], vec![catom(STEP, vec![v(0)], vec![Cond::Lt(Expr::Const(0), ev(0))]), atom(SCHED, sched_args.clone())]));
                        }
                    }
                    if feeder == "self-feeding" {
                        // pairs derived from the relation itself: r(a, c) <-- r(a, b), sched(_, b, c)
                        let mut ra = kv.clone(); ra.push(v(2)); ra.push(v(3));
                        let mut sa = vec![Arg::Wild]; sa.extend(kv.clone()); sa.push(v(3)); sa.push(v(4));
                        let mut h = ke.clone(); h.push(ev(2)); h.push(ev(4));
                        rules.push(rule(vec![head(R, h)], vec![atom(R, ra), atom(SCHED, sa)]));
                    }
                    // readers: one output relation per access pattern
                    let cols = 2 + k;
                    let mut readers: Vec<(String, Vec<BodyItem>, Vec<Expr>)> = vec![];
                    // every subset of bound columns, bound through preceding dom clauses
                    for mask in 0..(1u32 << cols) {
                        let mut body = vec![];
                        for cidx in 0..cols { if mask & (1 << cidx) != 0 { body.push(atom(DOM, vec![v(10 + cidx as Var)])); } }
                        body.push(atom(R, (0..cols).map(|cidx| v(10 + cidx as Var)).collect()));
                        readers.push((format!("bound{:03b}", mask), body, (0..cols).map(|cidx| ev(10 + cidx as Var)).collect()));
                    }
                    // relation first, binder second (r is the first clause of a simple join)
                    {
                        let mut body = vec![atom(R, (0..cols).map(|cidx| v(10 + cidx as Var)).collect())];
                        body.push(atom(DOM, vec![v(10 + cols as Var - 1)]));
                        readers.push(("first-of-join".into(), body, (0..cols).map(|cidx| ev(10 + cidx as Var)).collect()));
                    }
                    // joined on both element columns with a relation holding all pairs (either clause order): a simple join
                    // whose key is the pair; the smaller side is iterated through its index on the join columns
                    {
                        let ra: Vec<Arg> = (0..cols).map(|cidx| v(10 + cidx as Var)).collect();
                        let pa = vec![v(10 + k as Var), v(11 + k as Var)];
                        let h: Vec<Expr> = (0..cols).map(|cidx| ev(10 + cidx as Var)).collect();
                        readers.push(("first-of-pair-join".into(), vec![atom(R, ra.clone()), atom(PAIR, pa.clone())], h.clone()));
                        readers.push(("second-of-pair-join".into(), vec![atom(PAIR, pa), atom(R, ra)], h));
                    }
                    // constants and a repeated variable
                    if !deep {
                        let mut a1: Vec<Arg> = (0..cols).map(|cidx| v(10 + cidx as Var)).collect(); a1[k] = c(0);
                        let mut h1: Vec<Expr> = (0..cols).map(|cidx| ev(10 + cidx as Var)).collect(); h1[k] = Expr::Const(0);
                        readers.push(("const-first".into(), vec![atom(R, a1)], h1));
                        let mut a2: Vec<Arg> = (0..cols).map(|cidx| v(10 + cidx as Var)).collect(); a2[k + 1] = c(1);
                        let mut h2: Vec<Expr> = (0..cols).map(|cidx| ev(10 + cidx as Var)).collect(); h2[k + 1] = Expr::Const(1);
                        readers.push(("const-second".into(), vec![atom(R, a2)], h2));
                    }
                    {
                        let mut a3: Vec<Arg> = (0..cols).map(|cidx| v(10 + cidx as Var)).collect(); a3[k + 1] = v(10 + k as Var);
                        let mut h3: Vec<Expr> = (0..cols).map(|cidx| ev(10 + cidx as Var)).collect(); h3[k + 1] = ev(10 + k as Var);
                        readers.push(("repeated-var".into(), vec![atom(R, a3)], h3));
                    }
                    // self join r(x,y), r(y,z)
                    {
                        let mut a1: Vec<Arg> = kv.iter().map(|_| v(10)).collect(); a1.push(v(11)); a1.push(v(12));
                        let mut a2: Vec<Arg> = kv.iter().map(|_| v(10)).collect(); a2.push(v(12)); a2.push(v(13));
                        let mut h: Vec<Expr> = kv.iter().map(|_| ev(10)).collect(); h.push(ev(11)); h.push(ev(13));
                        readers.push(("self-join".into(), vec![atom(R, a1), atom(R, a2)], h));
                    }
                    // one program per reader for the ternary form (a missing index arm must not take the
                    // other access patterns down with it), one program with all readers for the binary form
                    let groups: Vec<Vec<(String, Vec<BodyItem>, Vec<Expr>)>> = if ternary && !deep { readers.into_iter().map(|r| vec![r]).collect() } else { vec![readers] };
                    for group in groups {
                        let mut rels2 = rels.clone();
                        let mut rules2 = rules.clone();
                        let mut names = vec![];
                        for (name, body, h) in &group {
                            let oi = rels2.len();
                            rels2.push(rel(&format!("o{}", oi - 5), cols));
                            rules2.push(rule(vec![head(oi, h.clone())], body.clone()));
                            if inside {
                                // back edge: the reader's output feeds the clock stratum (never fires)
                                rules2.push(rule(vec![head(STEP, vec![ev(20)])], vec![atom(oi, (0..cols).map(|cidx| v(20 + cidx as Var)).collect()), never()]));
                            }
                            names.push(name.clone());
                        }
                        let p = Prog { rels: rels2, rules: rules2, macros: vec![], n };
                        let tag = format!("ds-{}-{}-{}-{}{}", dsname, if ternary { "ternary" } else { "binary" }, feeder, if inside { "readers-in-recursive-stratum" } else { "readers-in-later-stratum" },
                            if deep { "-deep4".to_string() } else if ternary { format!("-{}", names[0]) } else { String::new() });
                        let mut u = Unit::simple(p, &tag);
                        u.input_rels = vec![SCHED];
                        let mut dom = vec![t_max + 1]; if ternary { dom.push(if deep { 1 } else { 2 }); } dom.push(n); dom.push(n);
                        u.domains.insert(SCHED, dom);
                        if deep { u.sym = Some(Sym { elem_cols: vec![1 + k, 2 + k], n_elem: n, max_facts: 4 }); }
                        units.push(u);
                    }
                    let _ = &mut rels;
                }
            }
        }
    }
    }
    units
}

// ------------------------------------------------------------------------------------------ F-par
/// serial vs parallel macros (with and without inter-rule parallelism) on a cut through the other families
pub fn f_par(thorough: bool) -> Vec<Unit> {
    let mut out = vec![];
    let step = if thorough { 2 } else { 12 };
    for (i, u) in f_scc(false).into_iter().enumerate() { if i % step == 0 || u.tag == "scc-multihead" { out.push(u); } }
    for (i, u) in f_shape(false).into_iter().enumerate() { if i % (if thorough { 10 } else { 80 }) == 0 { out.push(u); } }
    for u in f_lat(false) { if thorough || u.tag.ends_with("dualu32") || u.tag.ends_with("setu8") || u.tag.ends_with("constprop") || u.tag.ends_with("bool") { out.push(u); } }
    for (i, u) in f_agg(false).into_iter().enumerate() { if thorough || i % 3 == 0 || u.tag.contains("lattice") { out.push(u); } }
    // binary eqrel is the only BYODS provider with a parallel implementation
    for u in f_ds(false) { if u.tag.starts_with("ds-eqrel-binary") && (thorough || u.sym.is_none()) { out.push(u); } }
    for u in out.iter_mut() {
        u.variants.truncate(1);
        let base = u.variants[0].clone();
        u.variants.push(base.clone().with_kind(MacroKind::AscentPar, "ascent_par"));
        let mut irp = base.clone().with_kind(MacroKind::AscentPar, "ascent_par+inter_rule_parallelism");
        irp.attrs.push("#![inter_rule_parallelism]".into());
        u.variants.push(irp);
        u.tag = format!("par:{}", u.tag);
    }
    out
}

// ------------------------------------------------------------------------------------------ F-sugar
#[derive(Clone, Copy, PartialEq, Debug)]
enum Tok { Old(Var), New, Rep(Var), Wild, Const, PatBind, PatConst, ExprSame(Var), ExprPrev(Var) }

fn sugar_atoms(p: &Prog, rels: &[usize], atoms_left: usize, max_sugar: usize, prev_bound: &Vec<Var>, next: Var, sugar: usize,
               cur: &mut Vec<BodyItem>, out: &mut Vec<(Vec<BodyItem>, Vec<Var>, usize)>) {
    if !cur.is_empty() { out.push((cur.clone(), prev_bound.clone(), sugar)); }
    if atoms_left == 0 { return; }
    for &rel in rels {
        let ar = p.rels[rel].arity;
        // enumerate token vectors
        fn rec(ar: usize, pos: usize, prev: &Vec<Var>, here: &mut Vec<Var>, next: &mut Var, sugar: usize, max_sugar: usize, acc: &mut Vec<Arg>, res: &mut Vec<(Vec<Arg>, Vec<Var>, Var, usize)>) {
            if pos == ar { res.push((acc.clone(), here.clone(), *next, sugar)); return; }
            let mut toks: Vec<Tok> = vec![Tok::New];
            for v in prev { toks.push(Tok::Old(*v)); }
            if sugar < max_sugar {
                // (a variable bound by a `?pattern` of the same clause is not repeated in that clause: Ascent rejects
                // `b(?x, x)` as shadowing, and the documentation does not say what it should mean)
                let pat_bound: Vec<Var> = acc.iter().filter_map(|a| if let Arg::PatBind(v) = a { Some(*v) } else { None }).collect();
                for v in here.iter() { if pat_bound.contains(v) { continue; } toks.push(Tok::Rep(*v)); toks.push(Tok::ExprSame(*v)); }
                toks.push(Tok::Wild); toks.push(Tok::Const); toks.push(Tok::PatBind); toks.push(Tok::PatConst);
                if let Some(v) = prev.last() { toks.push(Tok::ExprPrev(*v)); }
            }
            for t in toks {
                let (arg, s2, newv) = match t {
                    Tok::Old(v) => (Arg::Var(v), sugar, None),
                    Tok::New => (Arg::Var(*next), sugar, Some(*next)),
                    Tok::Rep(v) => (Arg::Var(v), sugar + 1, None),
                    Tok::Wild => (Arg::Wild, sugar + 1, None),
                    Tok::Const => (Arg::Expr(Expr::Const(0)), sugar + 1, None),
                    Tok::PatBind => (Arg::PatBind(*next), sugar + 1, Some(*next)),
                    Tok::PatConst => (Arg::PatConst(1), sugar + 1, None),
                    Tok::ExprSame(v) | Tok::ExprPrev(v) => (Arg::Expr(Expr::Succ(Box::new(Expr::Var(v)))), sugar + 1, None),
                };
                acc.push(arg);
                if let Some(v) = newv { here.push(v); *next += 1; }
                rec(ar, pos + 1, prev, here, next, s2, max_sugar, acc, res);
                if newv.is_some() { here.pop(); *next -= 1; }
                acc.pop();
            }
        }
        let mut res = vec![];
        let mut n2 = next;
        rec(ar, 0, prev_bound, &mut vec![], &mut n2, sugar, max_sugar, &mut vec![], &mut res);
        for (args, here, n3, s3) in res {
            let mut b2 = prev_bound.clone(); b2.extend(here);
            cur.push(atom(rel, args));
            sugar_atoms(p, rels, atoms_left - 1, max_sugar, &b2, n3, s3, cur, out);
            cur.pop();
        }
    }
}

/// every sugar form alone and in pairs in every clause position of one- and two-clause bodies, plus negation,
/// (nested) disjunction and multi-head decorations; each unit = sugared text + hand expansion
pub fn f_sugar(thorough: bool) -> Vec<Unit> {
    let n = domain_n();
    let base = shape_schema(n, false);
    let (a, b, pp, q) = (0usize, 1usize, 2usize, 3usize);
    let mut bodies = vec![];
    sugar_atoms(&base, &[a, b, pp], 2, if thorough { 2 } else { 1 }, &vec![], 0, 0, &mut vec![], &mut bodies);
    let ctx = rule(vec![head(pp, vec![ev(0), ev(1)])], vec![atom(b, vec![v(0), v(1)])]);
    let mut units = vec![];
    let mut push = |rules: Vec<Rule>, tag: &str, units: &mut Vec<Unit>| {
        let mut sugared = base.clone();
        sugared.rules = vec![ctx.clone()];
        sugared.rules.extend(rules);
        let core = crate::expand::desugar(&sugared);
        // the decorations may negate a relation inside its own stratum: such a program is ill-formed (C15), not sugar
        if crate::refeval::stratify(&core).is_err() { return; }
        let mut u = Unit::simple(core.clone(), tag);
        let mut vs = Variant::plain(&sugared); vs.label = "sugared".into();
        let mut ve = Variant::plain(&core); ve.label = "hand-expanded".into();
        u.variants = if core == sugared { vec![vs] } else { vec![vs, ve] };
        if tag == "sugar-front-binder" || tag == "sugar-args" {
            // every variable bound by an earlier item as fresh variable + equality test
            let eqx = crate::expand::desugar_eq(&sugared);
            if eqx != core {
                let mut vq = Variant::plain(&eqx); vq.label = "equality-expanded".into();
                u.variants.push(vq);
            }
        }
        units.push(u);
    };
    let mut salt = 0usize;
    for (body, bound, sugar) in &bodies {
        salt += 1;
        let hd = heads_for(&base, bound, false, salt);
        // (thorough: bodies with two sugared arguments are a cut — every 4th — to keep the batch crates compilable)
        if *sugar == 2 && salt % 4 != 0 { continue; }
        if *sugar >= 1 { push(vec![rule(hd.clone(), body.clone())], "sugar-args", &mut units); }
        // decorations, rotating through the bodies in the quick tier
        let nv = bound.len();
        let pick = |k: usize| if thorough { salt % 3 == k % 3 } else { salt % 7 == k };
        if nv >= 1 && pick(0) {
            let mut b1 = body.clone(); b1.push(BodyItem::Neg { rel: a, args: vec![v(bound[0])] });
            push(vec![rule(hd.clone(), b1)], "sugar-negation", &mut units);
            let mut b2 = body.clone(); b2.push(BodyItem::Neg { rel: b, args: vec![v(bound[nv - 1]), Arg::Wild] });
            push(vec![rule(hd.clone(), b2)], "sugar-negation-wildcard", &mut units);
        }
        if nv >= 2 && pick(1) {
            let mut b3 = body.clone(); b3.push(BodyItem::Neg { rel: pp, args: vec![v(bound[1]), Arg::Expr(Expr::Succ(Box::new(ev(bound[0]))))] });
            push(vec![rule(hd.clone(), b3)], "sugar-negation-expr", &mut units);
        }
        if pick(2) {
            // disjunction replacing the last clause: (A | A') with the same variables
            if let Some(BodyItem::Atom(last)) = body.last() {
                if p_arity(&base, last.rel) == 2 && last.args.iter().all(|x| matches!(x, Arg::Var(_))) && last.args[0] != last.args[1] {
                    let alt = BodyItem::Atom(Atom { rel: if last.rel == b { pp } else { b }, args: vec![last.args[1].clone(), last.args[0].clone()], conds: vec![] });
                    let mut bd = body[..body.len() - 1].to_vec();
                    bd.push(BodyItem::Disj(vec![vec![BodyItem::Atom(last.clone())], vec![alt.clone()]]));
                    push(vec![rule(hd.clone(), bd.clone())], "sugar-disjunction", &mut units);
                    // nested: ((A | A'), if x != y | A), then a negation after it
                    if let (Arg::Var(x), Arg::Var(y)) = (&last.args[0], &last.args[1]) {
                        let inner = BodyItem::Disj(vec![vec![BodyItem::Atom(last.clone())], vec![alt.clone()]]);
                        // (a condition must not be the last item of a disjunct: `if e | ...` would parse `|` into the expression)
                        let nested = BodyItem::Disj(vec![vec![inner, BodyItem::Neg { rel: a, args: vec![v(*x)] }], vec![BodyItem::Atom(last.clone())]]);
                        let mut bn = body[..body.len() - 1].to_vec(); bn.push(nested); bn.push(BodyItem::Cond(Cond::Ne(ev(*x), ev(*y))));
                        push(vec![rule(hd.clone(), bn)], "sugar-nested-disjunction", &mut units);
                    }
                }
            }
        }
        if nv >= 1 && pick(3) {
            // several head clauses
            let mut hs = hd.clone(); hs.push(head(q, vec![ev(bound[nv - 1])]));
            if nv >= 2 { hs.push(head(pp, vec![ev(bound[1]), ev(bound[0])])); }
            push(vec![rule(hs, body.clone())], "sugar-multi-head", &mut units);
        }
        if nv >= 2 && body.len() == 2 && pick(4) {
            // a condition attached to the clause that becomes the second clause of a simple join
            let mut bc = body.clone();
            if let BodyItem::Atom(a2) = &mut bc[1] { a2.conds.push(Cond::Ne(ev(bound[0]), ev(bound[nv - 1]))); }
            push(vec![rule(hd.clone(), bc)], "sugar-attached-cond", &mut units);
        }
    }
    // an item that binds a variable in front of the clauses: the clause argument is then an equality test
    // against the column although the two clauses look like a plain join
    for (fi, front) in [BodyItem::Cond(Cond::Let(0, Expr::Const(1))), BodyItem::Gen(Gen::Two(0, Expr::Const(0), Expr::Const(0))), BodyItem::Gen(Gen::Range(0))].into_iter().enumerate() {
        let mut bodies2 = vec![];
        sugar_atoms(&base, &[a, b, pp], 2, if thorough { 1 } else { 0 }, &vec![0], 1, 0, &mut vec![front.clone()], &mut bodies2);
        for (body, bound, _) in &bodies2 {
            if body.len() < 2 { continue; }
            salt += 1;
            // quick tier: the three binders rotate through the bodies
            if !thorough && salt % 3 != fi { continue; }
            push(vec![rule(heads_for(&base, bound, false, salt), body.clone())], "sugar-front-binder", &mut units);
        }
    }
    // body-less rules are unconditional facts
    push(vec![rule(vec![head(q, vec![Expr::Const(1)])], vec![]), rule(vec![head(pp, vec![Expr::Const(0), Expr::Const(1)]), head(q, vec![Expr::Const(0)])], vec![]),
              rule(vec![head(pp, vec![ev(0), ev(0)])], vec![atom(q, vec![v(0)])])], "sugar-facts", &mut units);
    units
}
fn p_arity(p: &Prog, r: usize) -> usize { p.rels[r].arity }

// ------------------------------------------------------------------------------------------ F-macro
const P0: Var = PARAM_BASE;
const P1: Var = PARAM_BASE + 1;
fn call(mac: usize, args: Vec<MacArg>) -> BodyItem { BodyItem::Call { mac, args } }
fn mi(v: Var) -> MacArg { MacArg::Ident(v) }

/// in-program macros: definitions with ident / expr parameters, locals, conditions, disjunctions, nested
/// invocations and head macros x call patterns x every spelling clash between call-site variables, macro-local
/// identifiers, parameter names and the names the macro renamer itself generates
pub fn f_macro(thorough: bool) -> Vec<Unit> {
    let n = domain_n();
    let base = shape_schema(n, false);
    let (a, b, pp, q) = (0usize, 1usize, 2usize, 3usize);
    // macro-local variables use ids 50.., call-site variables 0..
    let (l0, l1): (Var, Var) = (50, 51);
    let macros = vec![
        // 0: two clauses joined through a local
        MacroDef { name: "m".into(), params: vec![MacParam::Ident, MacParam::Ident], body: vec![atom(b, vec![v(P0), v(l0)]), atom(pp, vec![v(l0), v(P1)])], heads: vec![] },
        // 1: expression parameter used as a clause argument
        MacroDef { name: "n".into(), params: vec![MacParam::Ident, MacParam::Expr], body: vec![atom(b, vec![v(P0), v(P1)])], heads: vec![] },
        // 2: disjunction and a condition over a parameter and a local
        MacroDef { name: "d".into(), params: vec![MacParam::Ident], body: vec![BodyItem::Disj(vec![vec![atom(a, vec![v(P0)])], vec![atom(b, vec![v(P0), v(l0)]), BodyItem::Cond(Cond::Ne(ev(P0), ev(l0)))]])], heads: vec![] },
        // 3: nested invocation passing a parameter and a local on
        MacroDef { name: "o".into(), params: vec![MacParam::Ident, MacParam::Ident], body: vec![call(0, vec![mi(P0), mi(l0)]), atom(b, vec![v(l0), v(P1)])], heads: vec![] },
        // 4: three levels
        MacroDef { name: "t".into(), params: vec![MacParam::Ident], body: vec![call(3, vec![mi(P0), mi(l1)]), call(2, vec![mi(l1)])], heads: vec![] },
        // 5: head macro
        MacroDef { name: "h".into(), params: vec![MacParam::Ident, MacParam::Ident], body: vec![], heads: vec![Head { rel: pp, args: vec![HArg::E(ev(P0)), HArg::E(ev(P1))] }, Head { rel: q, args: vec![HArg::E(ev(P1))] }] },
        // 6: local bound by a let and a negation inside the macro
        MacroDef { name: "k".into(), params: vec![MacParam::Ident], body: vec![atom(b, vec![v(P0), v(l0)]), BodyItem::Cond(Cond::Let(l1, Expr::Succ(Box::new(ev(l0))))), BodyItem::Neg { rel: a, args: vec![Arg::Expr(ev(l1))] }], heads: vec![] },
        // 7: disjunction whose disjuncts invoke another macro a different number of times, then one more invocation
        MacroDef { name: "e".into(), params: vec![MacParam::Ident, MacParam::Ident], body: vec![BodyItem::Disj(vec![vec![call(8, vec![mi(P0), mi(l1)]), call(8, vec![mi(l1), mi(P1)])], vec![call(8, vec![mi(P0), mi(P1)])]]), call(8, vec![mi(P1), mi(l1)])], heads: vec![] },
        // 8: the local is determined by the first parameter: two invocations sharing it would force their arguments equal
        // (a condition must not be the last item: inside a disjunction `if e | ...` would parse `|` into the expression)
        MacroDef { name: "g".into(), params: vec![MacParam::Ident, MacParam::Ident], body: vec![atom(b, vec![v(P0), v(P1)]), atom(a, vec![v(l0)]), BodyItem::Cond(Cond::Eq(ev(l0), ev(P0))), atom(a, vec![v(l0)])], heads: vec![] },
        // 9: a local bound by an `if let` attached to a clause
        MacroDef { name: "f".into(), params: vec![MacParam::Ident], body: vec![catom(b, vec![v(P0), v(l0)], vec![Cond::IfLetHalf(l1, ev(l0))]), atom(a, vec![v(l1)])], heads: vec![] },
    ];
    let ctx = rule(vec![head(pp, vec![ev(0), ev(1)])], vec![atom(b, vec![v(0), v(1)])]);
    // call patterns (call-site variables 0,1,2,3)
    let mut rules: Vec<(&str, Rule)> = vec![
        ("one-call", rule(vec![head(pp, vec![ev(0), ev(1)])], vec![call(0, vec![mi(0), mi(1)])])),
        ("same-macro-twice", rule(vec![head(pp, vec![ev(0), ev(2)])], vec![call(0, vec![mi(0), mi(1)]), call(0, vec![mi(1), mi(2)])])),
        ("same-macro-twice-same-args", rule(vec![head(q, vec![ev(0)])], vec![call(0, vec![mi(0), mi(1)]), call(0, vec![mi(0), mi(1)])])),
        ("call-after-clause", rule(vec![head(pp, vec![ev(1), ev(2)])], vec![atom(a, vec![v(0)]), atom(b, vec![v(0), v(1)]), call(0, vec![mi(1), mi(2)])])),
        ("expr-arg-const", rule(vec![head(q, vec![ev(0)])], vec![call(1, vec![mi(0), MacArg::Expr(Expr::Const(0))])])),
        ("expr-arg-expr", rule(vec![head(pp, vec![ev(0), ev(1)])], vec![atom(a, vec![v(0)]), call(1, vec![mi(1), MacArg::Expr(Expr::Succ(Box::new(ev(0))))])])),
        ("expr-arg-ident", rule(vec![head(pp, vec![ev(0), ev(1)])], vec![call(1, vec![mi(0), MacArg::Expr(ev(1))])])),
        ("disjunction-macro", rule(vec![head(q, vec![ev(0)])], vec![atom(pp, vec![v(0), v(1)]), call(2, vec![mi(1)])])),
        ("disjunction-macro-twice", rule(vec![head(pp, vec![ev(0), ev(1)])], vec![atom(pp, vec![v(0), v(1)]), call(2, vec![mi(0)]), call(2, vec![mi(1)])])),
        ("macro-inside-disjunction", rule(vec![head(pp, vec![ev(0), ev(1)])], vec![BodyItem::Disj(vec![vec![call(0, vec![mi(0), mi(1)])], vec![atom(b, vec![v(1), v(0)])]])])),
        ("nested", rule(vec![head(pp, vec![ev(0), ev(1)])], vec![call(3, vec![mi(0), mi(1)])])),
        ("nested-twice", rule(vec![head(pp, vec![ev(0), ev(2)])], vec![call(3, vec![mi(0), mi(1)]), call(3, vec![mi(1), mi(2)])])),
        ("three-deep", rule(vec![head(q, vec![ev(0)])], vec![call(4, vec![mi(0)])])),
        ("head-macro", rule(vec![HeadItem::Call { mac: 5, args: vec![mi(1), mi(0)] }], vec![atom(b, vec![v(0), v(1)])])),
        ("head-and-body-macro", rule(vec![HeadItem::Call { mac: 5, args: vec![mi(0), mi(2)] }, head(q, vec![ev(1)])], vec![call(0, vec![mi(0), mi(1)]), call(1, vec![mi(1), MacArg::Expr(ev(2))])])),
        ("let-and-negation", rule(vec![head(q, vec![ev(0)])], vec![call(6, vec![mi(0)]), call(6, vec![mi(0)])])),
        // invocations inside a disjunction, the disjuncts drawing different numbers of fresh names, and invocations around it
        ("disj-of-calls-inside-macro", rule(vec![head(pp, vec![ev(0), ev(1)])], vec![call(7, vec![mi(0), mi(1)])])),
        ("disj-of-calls-inside-macro-then-call", rule(vec![head(pp, vec![ev(0), ev(2)])], vec![call(7, vec![mi(0), mi(1)]), call(8, vec![mi(1), mi(2)])])),
    ];
    rules.push(("attached-iflet-local-twice", rule(vec![head(q, vec![ev(0)])], vec![call(9, vec![mi(0)]), call(9, vec![mi(0)])])));
    rules.push(("attached-iflet-local-two-args", rule(vec![head(pp, vec![ev(0), ev(1)])], vec![call(9, vec![mi(0)]), call(9, vec![mi(1)])])));
    for (mac, n1, n2, n3) in [(0usize, "disj-calls-then-call", "disj-calls-then-call-short-first", "call-then-disj-calls"), (8, "disj-calls-then-call-g", "disj-calls-then-call-short-first-g", "call-then-disj-calls-g")] {
        let m = |x: Var, y: Var| call(mac, vec![mi(x), mi(y)]);
        rules.push((n1, rule(vec![head(pp, vec![ev(0), ev(3)])], vec![BodyItem::Disj(vec![vec![m(0, 1), m(1, 2)], vec![m(0, 2)]]), m(2, 3)])));
        rules.push((n2, rule(vec![head(pp, vec![ev(0), ev(3)])], vec![BodyItem::Disj(vec![vec![m(0, 2)], vec![m(0, 1), m(1, 2)]]), m(2, 3)])));
        rules.push((n3, rule(vec![head(pp, vec![ev(0), ev(2)])], vec![m(0, 1), BodyItem::Disj(vec![vec![m(1, 3), m(3, 2)], vec![m(1, 2)]])])));
    }
    // spellings: macro locals are spelled "z" and "w"; call-site variables get every clash pattern
    let local_names: Vec<(Var, &str)> = vec![(l0, "z"), (l1, "w")];
    let mut schemes: Vec<Vec<&str>> = vec![
        vec!["x", "y", "u", "r"],          // no clash
        vec!["z", "y", "u", "r"],          // first call-site variable spelled like a macro local
        vec!["x", "z", "w", "r"],          // second and third spelled like the locals
        vec!["w", "z", "x", "y"],
        vec!["__z_", "__z_0", "x", "y"],   // what the macro renamer generates for z
        vec!["z_", "__w_", "z", "x"],
        vec!["p0", "p1", "z", "w"],        // spelled like the parameters (without the $)
    ];
    if !thorough { schemes.truncate(7); }
    let mut units = vec![];
    for (rname, r) in &rules {
        for (si, scheme) in schemes.iter().enumerate() {
            let mut p = base.clone();
            p.macros = macros.clone();
            p.rules = vec![ctx.clone(), r.clone()];
            let expanded = crate::expand::expand_macros(&p);
            let core = crate::expand::desugar(&expanded);
            if crate::refeval::stratify(&core).is_err() { continue; }
            let mut u = Unit::simple(core.clone(), &format!("macro-{}-names{}", rname, si));
            let mut vm = Variant::plain(&p); vm.label = "with-macros".into();
            for (i, nm) in scheme.iter().enumerate() { vm.var_names.insert(i as Var, nm.to_string()); }
            for (v, nm) in &local_names { vm.var_names.insert(*v, nm.to_string()); }
            let mut ve = Variant::plain(&expanded); ve.label = "hand-expanded".into();
            u.variants = vec![vm, ve];
            units.push(u);
        }
    }
    units
}

// ------------------------------------------------------------------------------------------ F-pack
fn has_consts(p: &Prog) -> bool { let txt = crate::print::Printer::new(p).program_text(); txt.contains("% ") || txt.contains("(0") || txt.contains(" 0)") || txt.contains("(1") || txt.contains(" 1)") || txt.contains("vfn::") || txt.contains(" as i32") || txt.contains("agg ") || txt.contains("for ") || txt.contains("let ") || txt.contains(" < ") }

/// packaging variants of a core set of programs
pub fn f_pack(thorough: bool) -> Vec<Unit> {
    let mut out = vec![];
    for (i, u) in f_scc(false).into_iter().enumerate() { if i % (if thorough { 6 } else { 24 }) == 0 || u.tag == "scc-multihead" { out.push(u); } }
    for u in f_lat(false) { if u.tag.ends_with("setu8") || (thorough && u.tag.ends_with("dualu32")) { out.push(u); } }
    for (i, u) in f_agg(false).into_iter().enumerate() { if i % (if thorough { 8 } else { 24 }) == 0 { out.push(u); } }
    for (i, u) in f_shape(false).into_iter().enumerate() { if i % (if thorough { 60 } else { 300 }) == 0 { out.push(u); } }
    for u in out.iter_mut() {
        u.variants.truncate(1);
        let base = u.variants[0].clone();
        let nitems = base.prog.rels.len() + base.prog.rules.len();
        let mut vs = vec![base.clone()];
        vs.push(base.clone().with_kind(MacroKind::AscentRun, "ascent_run"));
        // the program text cut at every item boundary: prefix | ascent_source block | suffix
        for i in 0..=nitems { for j in i..=nitems {
            if !thorough && !(i == 0 || j == nitems || j == i || j == i + 1) { continue; }
            let mut v = base.clone(); v.include_block = Some((i, j)); v.label = format!("include_source[{}..{}]", i, j); vs.push(v);
        } }
        for (kind, label) in [(MacroKind::AscentRun, "ascent_run+include_source"), (MacroKind::AscentPar, "ascent_par+include_source")] {
            // (ascent_run: the declarations stay outside the block, they carry the initialisers from the captured locals)
            let nrels = base.prog.rels.len();
            let mut v = base.clone().with_kind(kind.clone(), label);
            v.include_block = Some(if kind == MacroKind::AscentRun { (nrels, nitems) } else { (1.min(nitems), nitems.saturating_sub(1).max(1.min(nitems))) });
            vs.push(v);
        }
        let mut v = base.clone(); v.flags.push("init-tls".into()); v.label = "initialised-relations".into(); vs.push(v);
        let mut v = base.clone(); v.flags.push("init-tls".into()); v.flags.push("redecl".into()); v.label = "redeclared-relations".into(); vs.push(v);
        // first declaration with an initialiser, the later one without: the relation starts empty
        let mut v = base.clone(); v.flags.push("redecl".into()); v.label = "redeclared-without-initialiser".into(); vs.push(v);
        // the first (overridden) declarations come from an included source, the includer re-declares the relations after
        // the include: the text must be pasted in place, not appended (both with and without a later initialiser)
        let nfirst = base.prog.rels.iter().filter(|r| r.ds.is_none()).count();
        let mut v = base.clone(); v.flags.push("redecl".into()); v.include_block = Some((0, nfirst)); v.label = "include_source-then-redeclare".into(); vs.push(v);
        let mut v = base.clone(); v.flags.push("init-tls".into()); v.flags.push("redecl".into()); v.include_block = Some((0, nfirst)); v.label = "include_source-then-redeclare-initialised".into(); vs.push(v);
        for (attrs, label) in [(vec!["#![measure_rule_times]"], "measure_rule_times"), (vec!["#![generate_run_timeout]"], "generate_run_timeout"), (vec!["#![measure_rule_times]", "#![generate_run_timeout]"], "both-attributes")] {
            let mut v = base.clone(); v.attrs = attrs.iter().map(|s| s.to_string()).collect(); v.label = label.into(); vs.push(v);
        }
        if !has_consts(&base.prog) && base.prog.rels.iter().all(|r| r.lat.is_none()) {
            let mut v = base.clone(); v.generic = true; v.label = "generic-struct".into(); vs.push(v);
            let mut v = base.clone(); v.generic = true; v.flags.push("impl-signature".into()); v.label = "generic-struct+impl-signature".into(); vs.push(v);
        }
        u.variants = vs;
        u.tag = format!("pack:{}", u.tag);
    }
    out
}

// ------------------------------------------------------------------------------------------ F-perm (C06)
fn permutations(n: usize) -> Vec<Vec<usize>> {
    fn rec(n: usize, cur: &mut Vec<usize>, out: &mut Vec<Vec<usize>>) {
        if cur.len() == n { out.push(cur.clone()); return; }
        for i in 0..n { if !cur.contains(&i) { cur.push(i); rec(n, cur, out); cur.pop(); } }
    }
    let mut out = vec![]; rec(n, &mut vec![], &mut out); out
}
fn remap_rels(p: &Prog, order: &[usize]) -> (Prog, Vec<usize>) {
    // order[k] = index (in p) of the relation declared k-th in the result
    let mut map = vec![0; p.rels.len()];
    for (k, &old) in order.iter().enumerate() { map[old] = k; }
    let mut q = p.clone();
    q.rels = order.iter().map(|&o| p.rels[o].clone()).collect();
    fn go(items: &mut Vec<BodyItem>, map: &[usize]) { for b in items.iter_mut() { match b { BodyItem::Atom(a) => a.rel = map[a.rel], BodyItem::Agg { rel, .. } | BodyItem::Neg { rel, .. } => *rel = map[*rel], BodyItem::Disj(al) => for a in al.iter_mut() { go(a, map) }, _ => {} } } }
    for r in q.rules.iter_mut() { go(&mut r.body, &map); for h in r.heads.iter_mut() { if let HeadItem::H(h) = h { h.rel = map[h.rel]; } } }
    (q, map)
}
fn only_var_atoms(r: &Rule) -> bool { r.body.iter().all(|b| matches!(b, BodyItem::Atom(a) if a.conds.is_empty() && a.args.iter().all(|x| matches!(x, Arg::Var(_))))) }

/// syntactic variants of one logical program: every order of the rules, of the declarations, of the head
/// clauses and of independent body clauses; adversarial variable and relation names; the constants renamed
/// injectively into other column types
pub fn f_perm(thorough: bool) -> Vec<Unit> {
    let mut out = vec![];
    for (i, u) in f_scc(thorough).into_iter().enumerate() { if i % (if thorough { 4 } else { 12 }) == 0 || u.tag == "scc-multihead" { out.push(u); } }
    let mut nfront = 0usize;
    for (i, u) in f_shape(false).into_iter().enumerate() {
        // (a binder in front of two clauses is independent of them: every 6th such unit on top of the regular cut)
        // (the discriminating ones: the binder does not cover the domain and its variable is used by the second clause only)
        let front2 = u.tag == "shape+front-binder" && u.prog.rules.last().map_or(false, |r| r.body.len() == 3 && {
            let bv: Option<Var> = match &r.body[0] { BodyItem::Gen(Gen::Two(v, _, _)) | BodyItem::Cond(Cond::Let(v, _)) => Some(*v), _ => None };
            let uses = |b: &BodyItem, w: Var| matches!(b, BodyItem::Atom(a) if a.args.iter().any(|x| matches!(x, Arg::Var(y) if *y == w)));
            bv.map_or(false, |w| !uses(&r.body[1], w) && uses(&r.body[2], w))
        });
        if front2 { nfront += 1; }
        if i % (if thorough { 16 } else { 64 }) == 0 || (front2 && nfront % (if thorough { 1 } else { 3 }) == 0) { out.push(u); }
    }
    for u in out.iter_mut() {
        u.variants.truncate(1);
        let base = u.variants[0].clone();
        let p = base.prog.clone();
        let mut vs = vec![base.clone()];
        // a generator / let over constants in front of the clauses does not depend on them: every later position
        for (ri, r) in p.rules.iter().enumerate() {
            let indep = match r.body.first() { Some(BodyItem::Gen(Gen::Range(_))) => true, Some(BodyItem::Gen(Gen::Two(_, a, b))) => matches!((a, b), (Expr::Const(_), Expr::Const(_))), Some(BodyItem::Cond(Cond::Let(_, Expr::Const(_)))) => true, _ => false };
            if indep && r.body.len() >= 2 && r.body[1..].iter().all(|b| matches!(b, BodyItem::Atom(a) if a.conds.is_empty())) {
                let bv: Var = match &r.body[0] { BodyItem::Gen(Gen::Range(v)) | BodyItem::Gen(Gen::Two(v, _, _)) | BodyItem::Cond(Cond::Let(v, _)) => *v, _ => unreachable!() };
                let mentions = |b: &BodyItem| matches!(b, BodyItem::Atom(a) if a.args.iter().any(|x| matches!(x, Arg::Var(w) if *w == bv)));
                for pos in 1..r.body.len() {
                    // (only past clauses that do not mention the variable it binds)
                    if r.body[1..=pos].iter().any(|b| mentions(b)) { break; }
                    let mut body = r.body[1..].to_vec();
                    body.insert(pos, r.body[0].clone());
                    let mut v = base.clone(); v.prog.rules[ri].body = body; v.label = format!("rule{}-binder-moved-to-{}", ri, pos); vs.push(v);
                }
            }
        }
        let nr = p.rules.len();
        if nr <= 4 { for (k, pm) in permutations(nr).into_iter().enumerate().skip(1) {
            let mut v = base.clone(); v.prog.rules = pm.iter().map(|&i| p.rules[i].clone()).collect(); v.label = format!("rules-permuted#{}", k); vs.push(v);
        } }
        // declarations: reversed and rotated
        let nrel = p.rels.len();
        for (label, order) in [("declarations-reversed", (0..nrel).rev().collect::<Vec<_>>()), ("declarations-rotated", (0..nrel).map(|i| (i + 1) % nrel).collect::<Vec<_>>())] {
            let (q, map) = remap_rels(&p, &order);
            let mut v = base.clone(); v.prog = q; v.rel_map = map; v.label = label.into(); vs.push(v);
        }
        // relation names: alphabetical order reversed (generated code sorts by name), and adversarial spellings
        for (label, names) in [("relations-renamed-reverse-alphabet", (0..nrel).map(|i| format!("z{}", (b'z' - i as u8) as char)).collect::<Vec<_>>()),
                               ("relations-renamed-prefixes", (0..nrel).map(|i| format!("r{}", "_".repeat(i + 1))).collect::<Vec<_>>())] {
            let mut v = base.clone(); for (i, n) in names.iter().enumerate() { v.prog.rels[i].name = n.clone(); } v.label = label.into(); vs.push(v);
        }
        // variable names
        for (label, names) in [("variables-single-letters", vec!["a", "b", "c", "d", "e", "f", "g", "h"]), ("variables-underscores", vec!["v", "v_", "_v", "v__", "__v", "v_0", "v0_", "_v0"]),
                               ("variables-unicode", vec!["ä", "π", "变量", "ß", "ж", "λ", "é", "ø"])] {
            let mut v = base.clone(); for (i, n) in names.iter().enumerate() { v.var_names.insert(i as Var, n.to_string()); } v.label = label.into(); vs.push(v);
        }
        // body clauses that only bind / join variables are mutually independent: every order
        for (ri, r) in p.rules.iter().enumerate() {
            if r.body.len() >= 2 && r.body.len() <= 3 && only_var_atoms(r) {
                for (k, pm) in permutations(r.body.len()).into_iter().enumerate().skip(1) {
                    let mut v = base.clone(); v.prog.rules[ri].body = pm.iter().map(|&i| r.body[i].clone()).collect(); v.label = format!("rule{}-body-permuted#{}", ri, k); vs.push(v);
                }
            }
            if r.heads.len() >= 2 { let mut v = base.clone(); v.prog.rules[ri].heads.reverse(); v.label = format!("rule{}-heads-reversed", ri); vs.push(v); }
        }
        // injective renaming of the constants into other column types (programs without interpreted functions)
        if !has_consts(&p) && p.rels.iter().all(|r| r.lat.is_none()) {
            for ty in ["i64", "String", "Sym"] { for perm in 0..2 {
                let mut v = base.clone(); v.generic = true; v.flags.push(format!("T={}", ty)); v.flags.push(format!("perm={}", perm)); v.label = format!("constants-renamed-into-{}#{}", ty, perm); vs.push(v);
            } }
        }
        u.variants = vs;
        u.tag = format!("perm:{}", u.tag);
    }
    out
}

thread_local! { static DOMAIN_N: std::cell::Cell<i32> = const { std::cell::Cell::new(2) }; }
/// size of the constant domain the generators build their programs over (2; 3 for the `<family>-n3` families)
fn domain_n() -> i32 { DOMAIN_N.with(|c| c.get()) }

pub fn units(family: &str, thorough: bool) -> Vec<Unit> {
    if let Some(base) = family.strip_suffix("-n3") {
        DOMAIN_N.with(|c| c.set(3));
        let mut us = units(base, thorough);
        DOMAIN_N.with(|c| c.set(2));
        for u in us.iter_mut() { u.tag = format!("{}[n=3]", u.tag); }
        return us;
    }
    match family {
        "shape" => f_shape(thorough),
        "scc" => f_scc(thorough),
        "lat" => f_lat(thorough),
        "agg" => f_agg(thorough),
        "timeout" => f_timeout(thorough),
        "ds" => f_ds(thorough),
        "par" => f_par(thorough),
        "sugar" => f_sugar(thorough),
        "macro" => f_macro(thorough),
        "pack" | "packseg" => f_pack(thorough),
        "perm" => f_perm(thorough),
        "latbound" => f_latbound(thorough),
        // BYODS programs for the re-run histories of C13 (a BYODS relation keeps its contents in its own structure across runs)
        "dsrerun" => f_ds(false).into_iter().filter(|u| u.sym.is_none() && u.tag.contains("-binary-") && (u.tag.contains("-at-once-") || u.tag.contains("-clocked-"))).collect(),
        _ => panic!("unknown family {}", family),
    }
}

//! Program families (DESIGN.md 3.3). Every family is enumerated completely up to its bound,
//! canonical by construction (variables are numbered by first occurrence).
use crate::ast::*;

#[derive(Clone, Debug, PartialEq, Eq, Hash)]
pub enum MacroKind { Ascent, AscentPar, AscentRun, AscentRunPar }

#[derive(Clone, Debug)]
pub struct Variant {
    pub label: String,
    /// the program text of this variant is printed from `prog` (may differ from the unit's
    /// reference program: sugared form, permuted rules, renamed variables ...)
    pub prog: Prog,
    pub kind: MacroKind,
    /// inner attributes, e.g. "#![measure_rule_times]"
    pub attrs: Vec<String>,
    /// for each relation of the reference program: index of the relation in this variant's program
    pub rel_map: Vec<usize>,
    pub var_names: std::collections::HashMap<Var, String>,
    /// items (indices into printed items) moved into an ascent_source! block: (start, end)
    pub include_block: Option<(usize, usize)>,
    pub generic: bool,
}
impl Variant {
    pub fn plain(p: &Prog) -> Variant {
        Variant { label: "ascent".into(), prog: p.clone(), kind: MacroKind::Ascent, attrs: vec![], rel_map: (0..p.rels.len()).collect(),
            var_names: Default::default(), include_block: None, generic: false }
    }
    pub fn with_kind(mut self, k: MacroKind, label: &str) -> Variant { self.kind = k; self.label = label.into(); self }
    pub fn is_par(&self) -> bool { matches!(self.kind, MacroKind::AscentPar | MacroKind::AscentRunPar) }
}

#[derive(Clone, Debug)]
pub struct Unit {
    /// reference semantics: core program (no sugar, no macros)
    pub prog: Prog,
    pub variants: Vec<Variant>,
    /// feature tag used in violation signatures
    pub tag: String,
    /// relations that may receive input facts
    pub input_rels: Vec<usize>,
    /// relations compared with the reference (BYODS relations have no readable vector)
    pub observe: Vec<usize>,
}
impl Unit {
    pub fn simple(p: Prog, tag: &str) -> Unit {
        let all: Vec<usize> = (0..p.rels.len()).filter(|i| p.rels[*i].ds.is_none()).collect();
        Unit { variants: vec![Variant::plain(&p)], input_rels: all.clone(), observe: all, prog: p, tag: tag.into() }
    }
}

// ------------------------------------------------------------------------------------------ F-shape
pub struct ShapeOpts {
    pub max_atoms: usize,
    pub max_nonvar: usize,
    pub exprs: bool,
    pub rels: Vec<usize>,
    pub extras: bool, // conditions / generators
    pub all_heads: bool,
}

fn gen_atoms(p: &Prog, o: &ShapeOpts, atoms_left: usize, bound: &mut Vec<Var>, next: &mut Var, nonvar: usize, prefix_bound: usize,
             cur: &mut Vec<BodyItem>, out: &mut Vec<(Vec<BodyItem>, Vec<Var>)>) {
    if !cur.is_empty() { out.push((cur.clone(), bound.clone())); }
    if atoms_left == 0 { return; }
    for &rel in &o.rels {
        let ar = p.rels[rel].arity;
        // enumerate argument vectors position by position
        fn args_rec(o: &ShapeOpts, ar: usize, pos: usize, bound: &mut Vec<Var>, next: &mut Var, nonvar: usize, prefix_bound: usize,
                    acc: &mut Vec<Arg>, res: &mut Vec<(Vec<Arg>, Vec<Var>, Var, usize)>) {
            if pos == ar { res.push((acc.clone(), bound.clone(), *next, nonvar)); return; }
            // bound variables (from earlier items or earlier in this clause = repeated variable)
            for i in 0..bound.len() {
                let v = bound[i];
                acc.push(Arg::Var(v)); args_rec(o, ar, pos + 1, bound, next, nonvar, prefix_bound, acc, res); acc.pop();
            }
            // fresh variable
            let v = *next; *next += 1; bound.push(v);
            acc.push(Arg::Var(v)); args_rec(o, ar, pos + 1, bound, next, nonvar, prefix_bound, acc, res); acc.pop();
            bound.pop(); *next -= 1;
            if nonvar < o.max_nonvar {
                acc.push(Arg::Expr(Expr::Const(0))); args_rec(o, ar, pos + 1, bound, next, nonvar + 1, prefix_bound, acc, res); acc.pop();
                acc.push(Arg::Wild); args_rec(o, ar, pos + 1, bound, next, nonvar + 1, prefix_bound, acc, res); acc.pop();
                if o.exprs {
                    // expression over the most recently bound variable: either from an earlier item, or from this clause
                    if let Some(&v) = bound.last() {
                        acc.push(Arg::Expr(Expr::Succ(Box::new(Expr::Var(v))))); args_rec(o, ar, pos + 1, bound, next, nonvar + 1, prefix_bound, acc, res); acc.pop();
                    }
                    if prefix_bound > 0 && bound.len() > prefix_bound {
                        let v = bound[0];
                        acc.push(Arg::Expr(Expr::Succ(Box::new(Expr::Var(v))))); args_rec(o, ar, pos + 1, bound, next, nonvar + 1, prefix_bound, acc, res); acc.pop();
                    }
                }
            }
        }
        let mut res = vec![];
        let pb = bound.len();
        args_rec(o, ar, 0, bound, next, nonvar, pb, &mut vec![], &mut res);
        for (args, b2, n2, nv2) in res {
            let (mut b2, mut n2) = (b2, n2);
            cur.push(atom(rel, args));
            gen_atoms(p, o, atoms_left - 1, &mut b2, &mut n2, nv2, pb, cur, out);
            cur.pop();
        }
    }
}

fn heads_for(p: &Prog, bound: &[Var], all: bool, salt: usize) -> Vec<HeadItem> {
    let (pp, q) = (p.rel("p"), p.rel("q"));
    let mut hs = vec![];
    match bound.len() {
        0 => { hs.push(head(q, vec![Expr::Const(0)])); hs.push(head(pp, vec![Expr::Const(1), Expr::Const(0)])); }
        1 => { hs.push(head(q, vec![ev(bound[0])])); hs.push(head(pp, vec![ev(bound[0]), ev(bound[0])])); hs.push(head(pp, vec![Expr::Succ(Box::new(ev(bound[0]))), ev(bound[0])])); }
        _ => {
            let (f, l) = (bound[0], *bound.last().unwrap());
            hs.push(head(pp, vec![ev(f), ev(l)]));
            hs.push(head(pp, vec![ev(l), ev(f)]));
            hs.push(head(q, vec![ev(l)]));
            hs.push(head(pp, vec![ev(f), Expr::Succ(Box::new(ev(l)))]));
        }
    }
    if all { hs } else { vec![hs[salt % hs.len()].clone()] }
}

pub fn shape_schema(n: i32, with_c: bool) -> Prog {
    let mut rels = vec![rel("a", 1), rel("b", 2), rel("p", 2), rel("q", 1)];
    if with_c { rels.push(rel("c", 3)); }
    Prog { rels, rules: vec![], macros: vec![], n }
}

/// all rule shapes in the fixed recursive context `p(x,y) <-- b(x,y); R`
pub fn f_shape(thorough: bool) -> Vec<Unit> {
    let n = 2;
    let base = shape_schema(n, false);
    let o = ShapeOpts { max_atoms: 2, max_nonvar: if thorough { 2 } else { 1 }, exprs: thorough, rels: vec![0, 1, 2, 3], extras: true, all_heads: false };
    let mut bodies = vec![];
    gen_atoms(&base, &o, o.max_atoms, &mut vec![], &mut 0, 0, 0, &mut vec![], &mut bodies);
    let mut units = vec![];
    let ctx = rule(vec![head(2, vec![ev(0), ev(1)])], vec![atom(1, vec![v(0), v(1)])]);
    let mut salt = 0usize;
    let mut push = |body: Vec<BodyItem>, bound: &[Var], tag: &str, units: &mut Vec<Unit>, salt: &mut usize| {
        for h in heads_for(&base, bound, o.all_heads, *salt) {
            let mut p = base.clone();
            p.rules = vec![ctx.clone(), rule(vec![h], body.clone())];
            units.push(Unit::simple(p, tag));
        }
        *salt += 1;
    };
    for (body, bound) in &bodies {
        push(body.clone(), bound, "shape", &mut units, &mut salt);
        if !o.extras { continue; }
        // one condition / generator: appended as a separate item, attached to the last clause, or (generators) in front
        let nv = bound.len();
        let fresh: Var = bound.iter().max().map_or(0, |m| m + 1);
        let mut extras: Vec<(Vec<BodyItem>, Vec<Var>, &str)> = vec![];
        let mut conds: Vec<(Cond, Option<Var>)> = vec![];
        if nv >= 2 {
            conds.push((Cond::Ne(ev(bound[0]), ev(bound[nv - 1])), None));
            conds.push((Cond::Lt(ev(bound[0]), ev(bound[nv - 1])), None));
        }
        if nv >= 1 {
            conds.push((Cond::Let(fresh, Expr::Succ(Box::new(ev(bound[nv - 1])))), Some(fresh)));
            conds.push((Cond::IfLetHalf(fresh, ev(bound[0])), Some(fresh)));
            if thorough { conds.push((Cond::Eq(ev(bound[0]), Expr::Const(1)), None)); }
        }
        for (c, newv) in conds {
            let mut b2 = bound.clone();
            if let Some(x) = newv { b2.push(x); }
            // separate item
            let mut sep = body.clone(); sep.push(BodyItem::Cond(c.clone()));
            extras.push((sep, b2.clone(), "shape+cond"));
            // attached to the last clause
            let mut att = body.clone();
            if let Some(BodyItem::Atom(a)) = att.last_mut() { a.conds.push(c.clone()); }
            extras.push((att, b2.clone(), "shape+attached-cond"));
            // attached to the first clause of a two clause body, if it only mentions that clause's variables
            if thorough && body.len() == 2 {
                if let BodyItem::Atom(a0) = &body[0] {
                    let first_vars: Vec<Var> = a0.args.iter().filter_map(|a| if let Arg::Var(v) = a { Some(*v) } else { None }).collect();
                    let uses: Vec<Var> = match &c { Cond::Ne(Expr::Var(a), Expr::Var(b)) | Cond::Lt(Expr::Var(a), Expr::Var(b)) => vec![*a, *b], Cond::IfLetHalf(_, Expr::Var(a)) => vec![*a], _ => vec![255] };
                    if uses.iter().all(|u| first_vars.contains(u)) {
                        let mut att0 = body.clone();
                        if let BodyItem::Atom(a) = &mut att0[0] { a.conds.push(c.clone()); }
                        extras.push((att0, b2.clone(), "shape+cond-on-first-clause"));
                    }
                }
            }
        }
        if nv >= 1 {
            let mut g = body.clone(); g.push(BodyItem::Gen(Gen::Range(fresh)));
            let mut b2 = bound.clone(); b2.push(fresh);
            extras.push((g, b2.clone(), "shape+gen"));
            let mut g2 = body.clone(); g2.push(BodyItem::Gen(Gen::Two(fresh, ev(bound[0]), ev(bound[nv - 1]))));
            extras.push((g2, b2, "shape+gen"));
        }
        // quick tier: two of the extra forms per body, rotating through the list (every form occurs
        // with every k-th body); thorough tier: the full product
        let ne = extras.len();
        for (i, (b, bd, tag)) in extras.into_iter().enumerate() {
            if thorough || (ne > 0 && (i + ne - (salt % ne)) % ne < 2) { push(b, &bd, tag, &mut units, &mut salt); }
        }
    }
    // generator / let in front of the clauses: the clause then starts with a bound variable
    let o2 = ShapeOpts { max_atoms: if thorough { 2 } else { 1 }, max_nonvar: 1, exprs: false, rels: vec![0, 1, 2, 3], extras: false, all_heads: false };
    for front in [BodyItem::Gen(Gen::Range(0)), BodyItem::Cond(Cond::Let(0, Expr::Const(1)))] {
        let mut bodies2 = vec![];
        let mut cur = vec![front.clone()];
        gen_atoms_after(&base, &o2, o2.max_atoms, &mut vec![0], &mut 1, 0, &mut cur, &mut bodies2);
        for (body, bound) in bodies2 { push(body, &bound, "shape+front-binder", &mut units, &mut salt); }
    }
    if thorough {
        // three-clause bodies with variable arguments only (every binding pattern, every count 0-3 of dynamic clauses)
        let o3 = ShapeOpts { max_atoms: 3, max_nonvar: 0, exprs: false, rels: vec![0, 1, 2], extras: false, all_heads: false };
        let mut bodies3 = vec![];
        gen_atoms(&base, &o3, 3, &mut vec![], &mut 0, 0, 0, &mut vec![], &mut bodies3);
        for (body, bound) in bodies3 { if body.len() == 3 { push(body, &bound, "shape-3-clauses", &mut units, &mut salt); } }
    }
    units
}

fn gen_atoms_after(p: &Prog, o: &ShapeOpts, atoms_left: usize, bound: &mut Vec<Var>, next: &mut Var, nonvar: usize, cur: &mut Vec<BodyItem>, out: &mut Vec<(Vec<BodyItem>, Vec<Var>)>) {
    let mut tmp = vec![];
    let start = cur.clone();
    gen_atoms(p, o, atoms_left, bound, next, nonvar, 0, cur, &mut tmp);
    for (b, bd) in tmp { if b.len() > start.len() { out.push((b, bd)); } }
}

// ------------------------------------------------------------------------------------------ F-scc
/// dependency skeletons over derived binary relations r0..r{k-1} and the input relation e
pub fn f_scc(thorough: bool) -> Vec<Unit> {
    let n = 2;
    let nder = 3usize;
    let max_rules = if thorough { 4 } else { 3 };
    // rule alphabet: (head, body) with body one of: [e], [rj], [rj, e], [e, rj], [rj, rk]
    #[derive(Clone, PartialEq, Eq, PartialOrd, Ord, Debug)]
    enum B { E, Copy(usize), JoinE(usize), EJoin(usize), Join(usize, usize), Swap(usize) }
    let mut alphabet: Vec<(usize, B)> = vec![];
    for h in 0..nder {
        alphabet.push((h, B::E));
        for j in 0..nder { alphabet.push((h, B::Copy(j))); alphabet.push((h, B::JoinE(j)));
            if thorough { alphabet.push((h, B::EJoin(j))); alphabet.push((h, B::Swap(j))); }
            for k in 0..nder { if thorough || j <= k { alphabet.push((h, B::Join(j, k))); } } }
    }
    let mut sets: Vec<Vec<usize>> = vec![];
    fn choose(n: usize, k: usize, start: usize, cur: &mut Vec<usize>, out: &mut Vec<Vec<usize>>) {
        if cur.len() == k { out.push(cur.clone()); return; }
        for i in start..n { cur.push(i); choose(n, k, i + 1, cur, out); cur.pop(); }
    }
    for k in 1..=max_rules.min(3) { choose(alphabet.len(), k, 0, &mut vec![], &mut sets); }
    let rels_of = |b: &B| -> Vec<usize> { match b { B::E => vec![], B::Copy(j) | B::JoinE(j) | B::EJoin(j) | B::Swap(j) => vec![*j], B::Join(j, k) => vec![*j, *k] } };
    let mut seen = std::collections::BTreeSet::new();
    let mut units = vec![];
    let perms: Vec<Vec<usize>> = vec![vec![0, 1, 2], vec![0, 2, 1], vec![1, 0, 2], vec![1, 2, 0], vec![2, 0, 1], vec![2, 1, 0]];
    for set in sets {
        let rules: Vec<(usize, B)> = set.iter().map(|i| alphabet[*i].clone()).collect();
        // every derived relation mentioned must be the head of some rule; relations used form a prefix
        let heads: Vec<usize> = rules.iter().map(|r| r.0).collect();
        let mut used: Vec<usize> = heads.clone();
        for (_, b) in &rules { used.extend(rels_of(b)); }
        used.sort(); used.dedup();
        if used.iter().any(|r| !heads.contains(r)) { continue; }
        if used != (0..used.len()).collect::<Vec<_>>() { continue; }
        // some rule must read e, otherwise nothing is ever derived from the input relation
        // (facts placed directly in derived relations are covered by programs that do read e as well)
        if !rules.iter().any(|(_, b)| matches!(b, B::E | B::JoinE(_) | B::EJoin(_))) { continue; }
        // canonical under renaming of derived relations
        let ren = |pm: &Vec<usize>| -> Vec<(usize, B)> {
            let mut v: Vec<(usize, B)> = rules.iter().map(|(h, b)| (pm[*h], match b { B::E => B::E, B::Copy(j) => B::Copy(pm[*j]), B::JoinE(j) => B::JoinE(pm[*j]), B::EJoin(j) => B::EJoin(pm[*j]), B::Swap(j) => B::Swap(pm[*j]),
                B::Join(j, k) => { let (a, b) = (pm[*j], pm[*k]); if thorough { B::Join(a, b) } else { B::Join(a.min(b), a.max(b)) } } })).collect();
            v.sort(); v
        };
        let canon = perms.iter().map(|pm| ren(pm)).min().unwrap();
        if !seen.insert(canon.clone()) { continue; }
        // only programs with at least one cycle or at least two strata are interesting beyond F-shape
        let mut p = Prog { rels: vec![rel("e", 2), rel("r0", 2), rel("r1", 2), rel("r2", 2)], rules: vec![], macros: vec![], n };
        p.rels.truncate(1 + used.len());
        for (h, b) in &canon {
            let hd = |a: Var, b: Var| head(1 + h, vec![ev(a), ev(b)]);
            let r = match b {
                B::E => rule(vec![hd(0, 1)], vec![atom(0, vec![v(0), v(1)])]),
                B::Copy(j) => rule(vec![hd(0, 1)], vec![atom(1 + j, vec![v(0), v(1)])]),
                B::Swap(j) => rule(vec![hd(1, 0)], vec![atom(1 + j, vec![v(0), v(1)])]),
                B::JoinE(j) => rule(vec![hd(0, 2)], vec![atom(1 + j, vec![v(0), v(1)]), atom(0, vec![v(1), v(2)])]),
                B::EJoin(j) => rule(vec![hd(0, 2)], vec![atom(0, vec![v(0), v(1)]), atom(1 + j, vec![v(1), v(2)])]),
                B::Join(j, k) => rule(vec![hd(0, 2)], vec![atom(1 + j, vec![v(0), v(1)]), atom(1 + k, vec![v(1), v(2)])]),
            };
            p.rules.push(r);
        }
        units.push(Unit::simple(p, "scc"));
    }
    // multi-head rules and a relation that is head in two SCCs
    let mut p = Prog { rels: vec![rel("e", 2), rel("r0", 2), rel("r1", 2), rel("r2", 2)], rules: vec![], macros: vec![], n };
    p.rules.push(rule(vec![head(1, vec![ev(0), ev(1)]), head(2, vec![ev(1), ev(0)])], vec![atom(0, vec![v(0), v(1)])]));
    p.rules.push(rule(vec![head(3, vec![ev(0), ev(2)]), head(1, vec![ev(2), ev(0)])], vec![atom(1, vec![v(0), v(1)]), atom(2, vec![v(1), v(2)])]));
    units.push(Unit::simple(p.clone(), "scc-multihead"));
    p.rules.push(rule(vec![head(2, vec![ev(0), ev(1)])], vec![atom(3, vec![v(0), v(1)])]));
    units.push(Unit::simple(p, "scc-multihead"));
    units
}

pub fn units(family: &str, thorough: bool) -> Vec<Unit> {
    match family {
        "shape" => f_shape(thorough),
        "scc" => f_scc(thorough),
        _ => panic!("unknown family {}", family),
    }
}

//! Naive reference evaluator: sets and maps, "apply every rule to the whole database until nothing
//! changes", strata bottom-up from its own relation-level stratification. Shares no code and no
//! algorithmic idea with Ascent (no deltas, no indices, no version vectors).
use crate::ast::*;
use crate::vfn::code;
use std::collections::{BTreeMap, BTreeSet, HashMap};

pub type Tuple = Vec<i32>;

#[derive(Clone, Debug, PartialEq, Eq)]
pub enum RelData { Set(BTreeSet<Tuple>), Lat(BTreeMap<Tuple, i32>) }

impl RelData {
    pub fn tuples(&self) -> Vec<Tuple> {
        match self {
            RelData::Set(s) => s.iter().cloned().collect(),
            RelData::Lat(m) => m.iter().map(|(k, v)| { let mut t = k.clone(); t.push(*v); t }).collect(),
        }
    }
    pub fn len(&self) -> usize { match self { RelData::Set(s) => s.len(), RelData::Lat(m) => m.len() } }
}

#[derive(Clone, Debug, PartialEq, Eq)]
pub struct Db { pub rels: Vec<RelData> }

impl Db {
    pub fn empty(p: &Prog) -> Db {
        Db { rels: p.rels.iter().map(|r| if r.lat.is_some() { RelData::Lat(BTreeMap::new()) } else { RelData::Set(BTreeSet::new()) }).collect() }
    }
    /// returns true if the database changed
    pub fn insert(&mut self, p: &Prog, rel: usize, t: &[i32]) -> bool {
        match &mut self.rels[rel] {
            RelData::Set(s) => s.insert(t.to_vec()),
            RelData::Lat(m) => {
                let ty = p.rels[rel].lat.as_ref().unwrap();
                let (k, v) = t.split_at(t.len() - 1);
                match m.get_mut(k) {
                    None => { m.insert(k.to_vec(), v[0]); true }
                    Some(old) => { let j = code::join(ty, *old, v[0]); if j != *old { *old = j; true } else { false } }
                }
            }
        }
    }
}

#[derive(Debug, Clone, PartialEq)]
pub enum IllFormed { Unstratifiable(String), Unbound(String), Other(String) }

/// relation-level stratification: list of strata (each a set of relation ids) in evaluation order
pub fn stratify(p: &Prog) -> Result<Vec<Vec<usize>>, IllFormed> {
    let n = p.rels.len();
    let mut edges: Vec<Vec<(usize, bool)>> = vec![vec![]; n]; // body -> head, strict?
    fn body_rels(items: &[BodyItem], out: &mut Vec<(usize, bool)>) {
        for b in items {
            match b {
                BodyItem::Atom(a) => out.push((a.rel, false)),
                BodyItem::Agg { rel, .. } | BodyItem::Neg { rel, .. } => out.push((*rel, true)),
                BodyItem::Disj(alts) => for a in alts { body_rels(a, out) },
                _ => {}
            }
        }
    }
    for r in &p.rules {
        let mut br = vec![];
        body_rels(&r.body, &mut br);
        for h in &r.heads {
            let HeadItem::H(h) = h else { return Err(IllFormed::Other("macro call in head: expand first".into())) };
            for (b, strict) in &br { edges[*b].push((h.rel, *strict)); }
        }
    }
    // Tarjan
    struct T<'a> { idx: Vec<Option<usize>>, low: Vec<usize>, on: Vec<bool>, st: Vec<usize>, next: usize, comps: Vec<Vec<usize>>, e: &'a Vec<Vec<(usize, bool)>> }
    fn go(t: &mut T, v: usize) {
        t.idx[v] = Some(t.next); t.low[v] = t.next; t.next += 1; t.st.push(v); t.on[v] = true;
        for &(w, _) in &t.e[v].clone() {
            if t.idx[w].is_none() { go(t, w); t.low[v] = t.low[v].min(t.low[w]); }
            else if t.on[w] { t.low[v] = t.low[v].min(t.idx[w].unwrap()); }
        }
        if t.low[v] == t.idx[v].unwrap() {
            let mut c = vec![];
            loop { let w = t.st.pop().unwrap(); t.on[w] = false; c.push(w); if w == v { break; } }
            t.comps.push(c);
        }
    }
    let mut t = T { idx: vec![None; n], low: vec![0; n], on: vec![false; n], st: vec![], next: 0, comps: vec![], e: &edges };
    for v in 0..n { if t.idx[v].is_none() { go(&mut t, v); } }
    // Tarjan emits components in reverse topological order of the edge direction body -> head
    let mut comps = t.comps;
    comps.reverse();
    let mut comp_of = vec![0; n];
    for (i, c) in comps.iter().enumerate() { for &r in c { comp_of[r] = i; } }
    for b in 0..n { for &(h, strict) in &edges[b] { if strict && comp_of[b] == comp_of[h] {
        return Err(IllFormed::Unstratifiable(format!("{} is aggregated/negated inside its own stratum (head {})", p.rels[b].name, p.rels[h].name)));
    } } }
    Ok(comps)
}

struct Ev<'a> { p: &'a Prog, db: &'a Db, lat_of: HashMap<Var, LatTy> }
type Env = Vec<(Var, i32)>;

fn get(env: &Env, v: Var) -> Option<i32> { env.iter().rev().find(|(x, _)| *x == v).map(|(_, val)| *val) }

impl<'a> Ev<'a> {
    fn expr(&self, e: &Expr, env: &Env) -> i32 {
        match e {
            Expr::Var(v) => get(env, *v).unwrap_or_else(|| panic!("reference: unbound variable x{}", v)),
            Expr::Const(c) => *c,
            Expr::Succ(a) => (self.expr(a, env) + 1) % self.p.n,
            Expr::Min(a, b) => self.expr(a, env).min(self.expr(b, env)),
        }
    }
    fn cond(&self, c: &Cond, env: &mut Env) -> bool {
        match c {
            Cond::Ne(a, b) => self.expr(a, env) != self.expr(b, env),
            Cond::Lt(a, b) => self.expr(a, env) < self.expr(b, env),
            Cond::Eq(a, b) => self.expr(a, env) == self.expr(b, env),
            Cond::Let(v, e) => { let x = self.expr(e, env); env.push((*v, x)); true }
            Cond::IfLetHalf(v, e) => { let x = self.expr(e, env); if x % 2 == 0 { env.push((*v, x / 2)); true } else { false } }
            Cond::LatAbove(l, e) => { let ty = &self.lat_of[l]; code::above(ty, get(env, *l).unwrap(), self.expr(e, env)) }
            Cond::IfLetConst(v, c) => get(env, *v).expect("reference: unbound variable") == *c,
            Cond::IfLetBind(n, v) => { let x = get(env, *v).expect("reference: unbound variable"); env.push((*n, x)); true }
        }
    }
    fn match_tuple(&self, args: &[Arg], t: &[i32], env: &mut Env) -> bool {
        for (a, col) in args.iter().zip(t) {
            match a {
                Arg::Var(v) => match get(env, *v) { Some(x) => if x != *col { return false; }, None => env.push((*v, *col)) },
                Arg::Wild => {}
                Arg::Expr(e) => if self.expr(e, env) != *col { return false; },
                Arg::PatBind(v) | Arg::PatLat(v) => env.push((*v, *col)),
                Arg::PatConst(c) => if c != col { return false; },
            }
        }
        true
    }
    fn body(&self, items: &[BodyItem], env: &mut Env, out: &mut dyn FnMut(&Env)) {
        let Some((first, rest)) = items.split_first() else { out(env); return; };
        let mark = env.len();
        match first {
            BodyItem::Atom(a) => {
                for t in self.db.rels[a.rel].tuples() {
                    if self.match_tuple(&a.args, &t, env) && a.conds.iter().all(|c| self.cond(c, env)) { self.body(rest, env, out); }
                    env.truncate(mark);
                }
            }
            BodyItem::Cond(c) => { if self.cond(c, env) { self.body(rest, env, out); } env.truncate(mark); }
            BodyItem::Gen(Gen::Range(v)) => for x in 0..self.p.n { env.push((*v, x)); self.body(rest, env, out); env.truncate(mark); },
            BodyItem::Gen(Gen::Two(v, a, b)) => { let xs = [self.expr(a, env), self.expr(b, env)]; for x in xs { env.push((*v, x)); self.body(rest, env, out); env.truncate(mark); } }
            BodyItem::Agg { res, f, bound, rel, args } => {
                // distinct matching tuples, each contributing its aggregated column once
                let mut vals: Vec<i32> = vec![];
                let mut count = 0usize;
                for t in self.db.rels[*rel].tuples() {
                    let mut ok = true;
                    let mut val = None;
                    for (a, col) in args.iter().zip(&t) {
                        match a {
                            Arg::Var(v) if Some(*v) == *bound => val = Some(*col),
                            Arg::Var(v) => if get(env, *v).expect("agg: unbound variable") != *col { ok = false; },
                            Arg::Wild => {}
                            Arg::Expr(e) => if self.expr(e, env) != *col { ok = false; },
                            _ => panic!("pattern argument in aggregate"),
                        }
                    }
                    if ok { count += 1; if let Some(v) = val { vals.push(v); } }
                }
                let results: Vec<i32> = match f {
                    AggFn::Count => vec![count as i32],
                    AggFn::Sum => vec![vals.iter().sum()],
                    AggFn::Min => vals.iter().min().cloned().into_iter().collect(),
                    AggFn::Max => vals.iter().max().cloned().into_iter().collect(),
                    AggFn::Mean => if vals.is_empty() { vec![] } else {
                        // round half away from zero of 60 * sum / n, in exact integer arithmetic
                        let (s, n) = (vals.iter().map(|x| *x as i64).sum::<i64>() * 60, vals.len() as i64);
                        let q = (2 * s.abs() + n) / (2 * n);
                        vec![(if s < 0 { -q } else { q }) as i32]
                    },
                    AggFn::Percentile50 => if vals.is_empty() { vec![] } else { let mut s = vals.clone(); s.sort(); let i = (s.len() / 2).min(s.len() - 1); vec![s[i]] },
                    AggFn::Not => if count == 0 { vec![0] } else { vec![] },
                    AggFn::MinMax => { let mn = vals.iter().min(); let mx = vals.iter().max(); match (mn, mx) { (Some(a), Some(b)) if a != b => vec![*a, *b], (Some(a), _) => vec![*a], _ => vec![] } }
                };
                for r in results { env.push((*res, r)); self.body(rest, env, out); env.truncate(mark); }
            }
            BodyItem::Neg { rel, args } => {
                let any = self.db.rels[*rel].tuples().iter().any(|t| { let mut e2 = env.clone(); self.match_tuple(args, t, &mut e2) });
                if !any { self.body(rest, env, out); }
            }
            BodyItem::Disj(alts) => for alt in alts {
                let mut items: Vec<BodyItem> = alt.clone();
                items.extend(rest.iter().cloned());
                self.body(&items, env, out);
                env.truncate(mark);
            },
            BodyItem::Call { .. } => panic!("reference: macro call not expanded"),
        }
    }
}

fn lat_vars(p: &Prog, r: &Rule) -> HashMap<Var, LatTy> {
    let mut m = HashMap::new();
    fn go(p: &Prog, items: &[BodyItem], m: &mut HashMap<Var, LatTy>) {
        for b in items {
            match b {
                BodyItem::Atom(a) => if let Some(t) = &p.rels[a.rel].lat { if let Some(Arg::Var(v)) = a.args.last() { m.entry(*v).or_insert(t.clone()); } },
                BodyItem::Disj(alts) => for a in alts { go(p, a, m) },
                _ => {}
            }
        }
    }
    go(p, &r.body, &mut m);
    m
}

/// closure step for relations backed by a BYODS provider: the explicit rules of C10-C12
fn close_ds(p: &Prog, db: &mut Db) -> bool {
    let mut changed = false;
    for (i, r) in p.rels.iter().enumerate() {
        let Some(ds) = &r.ds else { continue };
        let RelData::Set(s) = &db.rels[i] else { continue };
        let cur: Vec<Tuple> = s.iter().cloned().collect();
        let mut add: Vec<Tuple> = vec![];
        let k = r.arity - 2; // key prefix length (0 binary, 1 ternary)
        for t in &cur {
            let (key, ab) = t.split_at(k);
            let (a, b) = (ab[0], ab[1]);
            let mk = |x: i32, y: i32| { let mut v = key.to_vec(); v.push(x); v.push(y); v };
            if matches!(ds, Ds::Eqrel | Ds::TrrelUf) { add.push(mk(a, a)); add.push(mk(b, b)); }
            if matches!(ds, Ds::Eqrel) { add.push(mk(b, a)); }
            for u in &cur { let (key2, cd) = u.split_at(k); if key2 == key && cd[0] == b { add.push(mk(a, cd[1])); } }
        }
        if let RelData::Set(s) = &mut db.rels[i] { for t in add { if s.insert(t) { changed = true; } } }
    }
    changed
}

/// least (stratified) model of `p` over `input`; `input` may hold facts for every relation
pub fn eval(p: &Prog, input: &Db) -> Result<Db, IllFormed> {
    let strata = stratify(p)?;
    let mut db = input.clone();
    while close_ds(p, &mut db) {}
    let lat_of: Vec<HashMap<Var, LatTy>> = p.rules.iter().map(|r| lat_vars(p, r)).collect();
    for stratum in &strata {
        loop {
            let mut new: Vec<(usize, Tuple)> = vec![];
            for (ri, r) in p.rules.iter().enumerate() {
                let heads: Vec<&Head> = r.heads.iter().filter_map(|h| match h { HeadItem::H(h) if stratum.contains(&h.rel) => Some(h), _ => None }).collect();
                if heads.is_empty() { continue; }
                let ev = Ev { p, db: &db, lat_of: lat_of[ri].clone() };
                let mut env = Env::new();
                ev.body(&r.body, &mut env, &mut |env| {
                    for h in &heads {
                        let ty = p.rels[h.rel].lat.as_ref();
                        let t: Tuple = h.args.iter().map(|a| match a {
                            HArg::E(e) => ev.expr(e, env),
                            HArg::LatMk(e) => code::mk(ty.unwrap(), ev.expr(e, env)),
                            HArg::LatStep(l, e) => code::step(ty.unwrap(), get(env, *l).unwrap(), ev.expr(e, env)),
                            HArg::LatVar(l) => get(env, *l).unwrap(),
                        }).collect();
                        new.push((h.rel, t));
                    }
                });
            }
            let mut changed = false;
            for (rel, t) in new { if db.insert(p, rel, &t) { changed = true; } }
            while close_ds(p, &mut db) { changed = true; }
            if !changed { break; }
        }
    }
    Ok(db)
}

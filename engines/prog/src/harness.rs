//! Run-time side of engine P: drives compiled programs over every input / history of the bound
//! and compares with the reference evaluator.
use crate::families::{Unit, Variant};
use crate::print::Printer;
use crate::refeval::{self, Db, Tuple};
use crate::vfn;
use std::collections::BTreeSet;
use crate::mj::{arr, obj, J};
use crate::report::{catch, panic_sig, silence_panics, Report};

pub trait Instance {
    fn push(&mut self, rel: usize, t: &[i32]);
    fn run(&mut self);
    fn run_timeout(&mut self, _nanos: u64) -> Option<bool> { None }
    /// rows of the relation in vector order
    fn dump(&self, rel: usize) -> Vec<Vec<i32>>;
    fn summary(&self) -> String { String::new() }
}

pub struct Entry {
    pub unit: usize,
    pub variant: usize,
    pub hash: u64,
    pub make: fn() -> Box<dyn Instance>,
}

pub fn text_hash(s: &str) -> u64 {
    // FNV-1a
    let mut h: u64 = 0xcbf29ce484222325;
    for b in s.bytes() { h ^= b as u64; h = h.wrapping_mul(0x100000001b3); }
    h
}

/// the printed items of a variant (shared by the generator and the harness, so both agree on the text)
pub fn variant_items(v: &Variant) -> Vec<String> {
    let mut pr = Printer::new(&v.prog);
    pr.names.vars = v.var_names.clone();
    pr.items()
}

pub type Fact = (usize, Tuple);

/// every fact that may be given as input: all tuples over the domain for every input relation
pub fn universe(u: &Unit) -> Vec<Fact> {
    let n = u.prog.n;
    let mut out = vec![];
    for &r in &u.input_rels {
        let d = &u.prog.rels[r];
        let cols = d.arity;
        let mut t = vec![0; cols];
        loop {
            let mut tt = t.clone();
            if let Some(ty) = &d.lat { tt[cols - 1] = vfn::code::mk(ty, t[cols - 1]); }
            out.push((r, tt));
            let mut i = cols;
            loop {
                if i == 0 { break; }
                i -= 1;
                t[i] += 1;
                if t[i] < n { break; }
                t[i] = 0;
                if i == 0 { i = usize::MAX; break; }
            }
            if i == usize::MAX { break; }
            if cols == 0 { break; }
        }
    }
    out
}

/// all subsets of the universe (as index lists) up to the bound: everything if the universe is small,
/// otherwise every subset with at most k facts, k as large as the budget allows
pub fn input_sets(universe_len: usize, max_bits: usize, budget: usize) -> (Vec<Vec<usize>>, String) {
    if universe_len <= max_bits {
        let all: Vec<Vec<usize>> = (0u64..(1u64 << universe_len)).map(|m| (0..universe_len).filter(|i| m & (1 << i) != 0).collect()).collect();
        return (all, format!("all 2^{} subsets of the fact universe", universe_len));
    }
    let mut k = 0;
    let mut total: u128 = 1;
    let mut binom: u128 = 1;
    while k < universe_len {
        binom = binom * (universe_len - k) as u128 / (k + 1) as u128;
        if total + binom > budget as u128 { break; }
        total += binom;
        k += 1;
    }
    let mut out = vec![];
    fn rec(n: usize, k: usize, start: usize, cur: &mut Vec<usize>, out: &mut Vec<Vec<usize>>) {
        out.push(cur.clone());
        if cur.len() == k { return; }
        for i in start..n { cur.push(i); rec(n, k, i + 1, cur, out); cur.pop(); }
    }
    rec(universe_len, k, 0, &mut vec![], &mut out);
    // simplest first
    out.sort_by_key(|s| s.len());
    (out, format!("all subsets with <= {} facts of a universe of {} facts", k, universe_len))
}

pub fn db_of(u: &Unit, facts: &[Fact]) -> Db {
    let mut db = Db::empty(&u.prog);
    for (r, t) in facts { db.insert(&u.prog, *r, t); }
    db
}

pub fn fact_json(u: &Unit, f: &Fact) -> J { arr(vec![u.prog.rels[f.0].name.clone().into(), (&f.1).into()]) }

pub struct Ctx<'a> {
    pub family: String,
    pub mode: String,
    pub thorough: bool,
    pub units: Vec<Unit>,
    pub table: &'a [Entry],
    pub rep: Report,
}

impl<'a> Ctx<'a> {
    pub fn makes(&self, unit: usize) -> Vec<(usize, fn() -> Box<dyn Instance>)> {
        self.table.iter().filter(|e| e.unit == unit).map(|e| (e.variant, e.make)).collect()
    }
    pub fn replay_json(&self, ui: usize, variant: &Variant, extra: J) -> J {
        let u = &self.units[ui];
        obj(vec![("family", self.family.clone().into()), ("tier", (if self.thorough { "thorough" } else { "quick" }).into()), ("mode", self.mode.clone().into()),
                 ("unit", ui.into()), ("tag", u.tag.clone().into()), ("variant", variant.label.clone().into()), ("program", variant_items(variant).into()), ("case", extra)])
    }
}

/// runs one variant on one input; returns the dumped relations (variant relation order mapped back
/// to the reference program's relation order) or the panic message
pub fn run_once(u: &Unit, v: &Variant, make: fn() -> Box<dyn Instance>, facts: &[Fact]) -> Result<Vec<Vec<Tuple>>, String> {
    catch(|| {
        let mut inst = make();
        for (r, t) in facts { inst.push(v.rel_map[*r], t); }
        inst.run();
        (0..u.prog.rels.len()).map(|r| inst.dump(v.rel_map[r])).collect()
    })
}

pub fn as_set(rows: &[Tuple]) -> BTreeSet<Tuple> { rows.iter().cloned().collect() }

/// C01 / C03 / C04 style oracle: every observed relation equals the reference model as a set
pub fn compare_model(cx: &mut Ctx, ui: usize, vi: usize, facts: &[Fact], got: &Result<Vec<Vec<Tuple>>, String>, want: &Db, prop: &str) -> bool {
    let u = cx.units[ui].clone();
    let v = u.variants[vi].clone();
    let case = obj(vec![("input", J::Arr(facts.iter().map(|f| fact_json(&u, f)).collect()))]);
    match got {
        Err(p) => {
            cx.rep.violate(format!("{}|{}|{}|panic|{}", prop, cx.family, u.tag, panic_sig(p)),
                format!("{} [{}] panicked: {} on input {} -- program: {}", u.tag, v.label, p, case.get("input").to_string(), variant_items(&v).join(" ")),
                cx.replay_json(ui, &v, case));
            false
        }
        Ok(rels) => {
            let mut ok = true;
            for &r in &u.observe {
                let g = as_set(&rels[r]);
                let w: BTreeSet<Tuple> = want.rels[r].tuples().into_iter().collect();
                if g != w {
                    let missing: Vec<&Tuple> = w.difference(&g).collect();
                    let extra: Vec<&Tuple> = g.difference(&w).collect();
                    let kind = match (missing.is_empty(), extra.is_empty()) { (false, true) => "missing-tuples", (true, false) => "extra-tuples", _ => "missing-and-extra" };
                    cx.rep.violate(format!("{}|{}|{}|{}|{}", prop, cx.family, u.tag, v.label, kind),
                        format!("{} [{}]: relation {} missing {:?} extra {:?} on input {} -- program: {}", u.tag, v.label, u.prog.rels[r].name, missing, extra, case.get("input").to_string(), variant_items(&v).join(" ")),
                        cx.replay_json(ui, &v, case.clone()));
                    ok = false;
                    break;
                }
            }
            ok
        }
    }
}

fn mode_model(cx: &mut Ctx, prop: &str, only_unit: Option<usize>, only_input: Option<Vec<Fact>>) {
    let (max_bits, budget) = if cx.thorough { (13, 9000) } else { (12, 4100) };
    let mut inputs_desc = String::new();
    for ui in 0..cx.units.len() {
        let makes = cx.makes(ui);
        if makes.is_empty() { continue; }
        if only_unit.map_or(false, |o| o != ui) { continue; }
        let u = cx.units[ui].clone();
        let uni = universe(&u);
        let (sets, desc) = input_sets(uni.len(), max_bits, budget);
        inputs_desc = desc;
        cx.rep.states += 1;
        let mut unit_nontrivial = false;
        let run_input = |facts: &Vec<Fact>, cx: &mut Ctx, unit_nontrivial: &mut bool| {
            let want = match refeval::eval(&u.prog, &db_of(&u, facts)) { Ok(d) => d, Err(e) => { cx.rep.machinery_error(format!("reference rejects unit {}: {:?}", ui, e)); return; } };
            let derived: usize = want.rels.iter().map(|r| r.len()).sum::<usize>();
            let given: usize = db_of(&u, facts).rels.iter().map(|r| r.len()).sum();
            if derived > given { *unit_nontrivial = true; cx.rep.nontrivial += 1; }
            for (vi, make) in &makes {
                let got = run_once(&u, &u.variants[*vi], *make, facts);
                cx.rep.executions += 1;
                cx.rep.transitions += 1;
                compare_model(cx, ui, *vi, facts, &got, &want, prop);
            }
            cx.rep.states += 1;
            cx.rep.evaluations += 1;
        };
        if let Some(inp) = &only_input { run_input(inp, cx, &mut unit_nontrivial); continue; }
        for s in &sets {
            let facts: Vec<Fact> = s.iter().map(|i| uni[*i].clone()).collect();
            run_input(&facts, cx, &mut unit_nontrivial);
            if cx.thorough && facts.len() >= 2 {
                let mut rev = facts.clone(); rev.reverse();
                run_input(&rev, cx, &mut unit_nontrivial);
            }
        }
        cx.rep.add_extra("programs", 1);
        if unit_nontrivial { cx.rep.add_extra("programs_deriving_something", 1); }
        if cx.rep.samples.len() < 3 { let v = &u.variants[0]; cx.rep.sample(obj(vec![("program", variant_items(v).into()), ("inputs", sets.len().into()), ("tag", u.tag.clone().into())])); }
    }
    cx.rep.extra("inputs_per_program", inputs_desc);
}

/// entry point of every generated harness binary
pub fn main(family: &str, tier: &str, shard: usize, nshards: usize, table: &[Entry]) -> ! {
    let start = std::time::Instant::now();
    silence_panics();
    let args: Vec<String> = std::env::args().collect();
    let mode = args.iter().position(|a| a == "--mode").map(|i| args[i + 1].clone()).unwrap_or_else(|| "C01".into());
    let thorough = tier == "thorough";
    let units = crate::families::units(family, thorough);
    let mut rep = Report::new(&mode, &format!("{}-{}-s{}", family, tier, shard));
    rep.tier = std::env::var("VERIF_TIER").unwrap_or_else(|_| tier.to_string());
    // the generator and this binary must agree on the enumeration and on the printed text
    for e in table {
        if e.unit >= units.len() || e.unit % nshards != shard { rep.machinery_error(format!("table entry for unit {} does not belong to shard {}", e.unit, shard)); continue; }
        let txt = variant_items(&units[e.unit].variants[e.variant]).join("\n");
        if text_hash(&txt) != e.hash { rep.machinery_error(format!("unit {} variant {}: compiled text differs from the enumerated program", e.unit, e.variant)); }
    }
    let replay = crate::report::replay_arg();
    let (only_unit, only_input) = match &replay {
        None => (None, None),
        Some(r) => {
            let ui = r.get("unit").as_u64().unwrap() as usize;
            let u = &units[ui];
            let inp: Option<Vec<Fact>> = r.get("case").get("input").as_array().map(|a| a.iter().map(|f| {
                let name = f.at(0).as_str().unwrap();
                (u.prog.rel(name), f.at(1).as_array().unwrap().iter().map(|x| x.as_i64().unwrap() as i32).collect())
            }).collect());
            (Some(ui), inp)
        }
    };
    let mut cx = Ctx { family: family.into(), mode: mode.clone(), thorough, units, table, rep };
    if cx.rep.machinery_errors.is_empty() {
        match mode.as_str() {
            "C01" | "C03" | "C04" => { let m = mode.clone(); mode_model(&mut cx, &m, only_unit, only_input) }
            other => cx.rep.machinery_error(format!("unknown mode {}", other)),
        }
    }
    cx.rep.rule = format!("family {} ({} programs in this shard's share), every input of the bound run on the compiled program and on the naive reference evaluator; non-trivial = the model contains a tuple that is not an input fact", family, cx.rep.extras.get("programs").and_then(|v| v.as_u64()).unwrap_or(0));
    let code = cx.rep.finish(start);
    std::process::exit(code)
}

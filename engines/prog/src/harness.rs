//! Run-time side of engine P: drives compiled programs over every input / history of the bound
//! and compares with the reference evaluator.
use crate::ast::*;
use crate::families::{Unit, Variant};
use crate::print::Printer;
use crate::refeval::{self, Db, Tuple};
use crate::vfn;
use std::collections::BTreeSet;
use crate::mj::{arr, obj, J};
use crate::report::{catch, panic_sig, silence_panics, Report};

pub trait Instance {
    fn push(&mut self, rel: usize, t: &[i32]);
    fn run(&mut self);
    fn run_timeout(&mut self, _nanos: u64) -> Option<bool> { None }
    /// rows of the relation in vector order
    fn dump(&self, rel: usize) -> Vec<Vec<i32>>;
    fn summary(&self) -> String { String::new() }
}

pub struct Entry {
    pub unit: usize,
    pub variant: usize,
    pub hash: u64,
    pub make: fn() -> Box<dyn Instance>,
}

pub fn text_hash(s: &str) -> u64 {
    // FNV-1a
    let mut h: u64 = 0xcbf29ce484222325;
    for b in s.bytes() { h ^= b as u64; h = h.wrapping_mul(0x100000001b3); }
    h
}

/// the printed items of a variant (shared by the generator and the harness, so both agree on the text)
pub fn variant_items(v: &Variant) -> Vec<String> {
    let mut pr = Printer::new(&v.prog);
    pr.names.vars = v.var_names.clone();
    pr.named_consts = v.flags.iter().any(|f| f == "named-consts");
    pr.items()
}

pub type Fact = (usize, Tuple);

/// every fact that may be given as input: all tuples over the domain for every input relation
pub fn universe(u: &Unit) -> Vec<Fact> {
    let n = u.prog.n;
    let mut out = vec![];
    for &r in &u.input_rels {
        let d = &u.prog.rels[r];
        let cols = d.arity;
        let doms: Vec<i32> = u.domains.get(&r).cloned().unwrap_or_else(|| vec![n; cols]);
        let mut t = vec![0; cols];
        'outer: loop {
            let mut tt = t.clone();
            if let Some(ty) = &d.lat { tt[cols - 1] = vfn::code::mk(ty, t[cols - 1]); }
            out.push((r, tt));
            let mut i = cols;
            loop {
                if i == 0 { break 'outer; }
                i -= 1;
                t[i] += 1;
                if t[i] < doms[i] { break; }
                t[i] = 0;
            }
        }
    }
    out
}

/// all subsets of the universe (as index lists) up to the bound: everything if the universe is small,
/// otherwise every subset with at most k facts, k as large as the budget allows
pub fn input_sets(universe_len: usize, max_bits: usize, budget: usize) -> (Vec<Vec<usize>>, String) {
    if universe_len <= max_bits {
        let all: Vec<Vec<usize>> = (0u64..(1u64 << universe_len)).map(|m| (0..universe_len).filter(|i| m & (1 << i) != 0).collect()).collect();
        return (all, format!("all 2^{} subsets of the fact universe", universe_len));
    }
    let mut k = 0;
    let mut total: u128 = 1;
    let mut binom: u128 = 1;
    while k < universe_len {
        binom = binom * (universe_len - k) as u128 / (k + 1) as u128;
        if total + binom > budget as u128 { break; }
        total += binom;
        k += 1;
    }
    let mut out = vec![];
    fn rec(n: usize, k: usize, start: usize, cur: &mut Vec<usize>, out: &mut Vec<Vec<usize>>) {
        out.push(cur.clone());
        if cur.len() == k { return; }
        for i in start..n { cur.push(i); rec(n, k, i + 1, cur, out); cur.pop(); }
    }
    rec(universe_len, k, 0, &mut vec![], &mut out);
    // simplest first
    out.sort_by_key(|s| s.len());
    (out, format!("all subsets with <= {} facts of a universe of {} facts", k, universe_len))
}

/// input sets up to renaming of the elements: all subsets with <= max_facts facts of the universe, one
/// representative (the lexicographically least image) per orbit of the element permutations
pub fn sym_input_sets(uni: &[Fact], sym: &crate::families::Sym) -> (Vec<Vec<usize>>, String) {
    fn perms(n: usize) -> Vec<Vec<i32>> {
        if n == 0 { return vec![vec![]]; }
        let mut out = vec![];
        for p in perms(n - 1) { for i in 0..n { let mut q = p.clone(); q.insert(i, (n - 1) as i32); out.push(q); } }
        out
    }
    let ps: Vec<Vec<i32>> = perms(sym.n_elem as usize).into_iter().filter(|p| p.iter().enumerate().any(|(i, x)| *x != i as i32)).collect();
    let image = |s: &[usize], p: &Vec<i32>| -> Vec<Fact> {
        let mut v: Vec<Fact> = s.iter().map(|i| { let (r, t) = &uni[*i]; let mut t2 = t.clone(); for c in &sym.elem_cols { t2[*c] = p[t2[*c] as usize]; } (*r, t2) }).collect();
        v.sort();
        v
    };
    let mut out = vec![];
    let mut total = 0usize;
    fn rec(n: usize, k: usize, start: usize, cur: &mut Vec<usize>, f: &mut dyn FnMut(&Vec<usize>)) {
        f(cur);
        if cur.len() == k { return; }
        for i in start..n { cur.push(i); rec(n, k, i + 1, cur, f); cur.pop(); }
    }
    rec(uni.len(), sym.max_facts, 0, &mut vec![], &mut |s: &Vec<usize>| {
        total += 1;
        let mut me: Vec<Fact> = s.iter().map(|i| uni[*i].clone()).collect();
        me.sort();
        if ps.iter().all(|p| image(s, p) >= me) { out.push(s.clone()); }
    });
    out.sort_by_key(|s| s.len());
    let n = out.len();
    (out, format!("all {} subsets with <= {} facts of a universe of {} facts, one representative per renaming of the {} elements ({} sets)", total, sym.max_facts, uni.len(), sym.n_elem, n))
}

pub fn db_of(u: &Unit, facts: &[Fact]) -> Db {
    let mut db = Db::empty(&u.prog);
    for (r, t) in facts { db.insert(&u.prog, *r, t); }
    db
}

pub fn fact_json(u: &Unit, f: &Fact) -> J { arr(vec![u.prog.rels[f.0].name.clone().into(), (&f.1).into()]) }

pub struct Ctx<'a> {
    pub family: String,
    pub mode: String,
    pub thorough: bool,
    pub units: Vec<Unit>,
    pub table: &'a [&'a Entry],
    pub rep: Report,
}

impl<'a> Ctx<'a> {
    pub fn makes(&self, unit: usize) -> Vec<(usize, fn() -> Box<dyn Instance>)> {
        self.table.iter().filter(|e| e.unit == unit).map(|e| (e.variant, e.make)).collect()
    }
    pub fn replay_json(&self, ui: usize, variant: &Variant, extra: J) -> J {
        let u = &self.units[ui];
        obj(vec![("family", self.family.clone().into()), ("tier", (if self.thorough { "thorough" } else { "quick" }).into()), ("mode", self.mode.clone().into()),
                 ("unit", ui.into()), ("tag", u.tag.clone().into()), ("variant", variant.label.clone().into()), ("program", variant_items(variant).into()), ("case", extra)])
    }
}

// ---------------------------------------------------------------------------------------- hang watchdog
// A parallel program that deadlocks on the single worker (a lock taken twice, a guard held across a nested lock)
// never returns. The run in progress is published here; a watchdog thread turns a run that has not returned
// after VERIF_HANG_SECS (default 60; the programs run in micro- to milliseconds) into a violation with its
// replay data and ends the shard.
struct Watched { since: std::time::Instant, tag: String, label: String, program: Vec<String>, input: J }
static WATCH: std::sync::Mutex<Option<Watched>> = std::sync::Mutex::new(None);
fn watch_begin(u: &Unit, v: &Variant, facts: &[Fact]) {
    if !matches!(v.kind, crate::families::MacroKind::AscentPar | crate::families::MacroKind::AscentRunPar) { return; }
    *WATCH.lock().unwrap() = Some(Watched { since: std::time::Instant::now(), tag: u.tag.clone(), label: v.label.clone(), program: variant_items(v), input: J::Arr(facts.iter().map(|f| fact_json(u, f)).collect()) });
}
fn watch_end() { if let Ok(mut g) = WATCH.lock() { *g = None; } }
fn start_watchdog(family: String, tier: String, mode: String, shard: usize, start: std::time::Instant) {
    let limit = std::env::var("VERIF_HANG_SECS").ok().and_then(|s| s.parse::<u64>().ok()).unwrap_or(60);
    std::thread::spawn(move || loop {
        std::thread::sleep(std::time::Duration::from_millis(500));
        let g = WATCH.lock().unwrap();
        if let Some(w) = g.as_ref() {
            if w.since.elapsed().as_secs() >= limit {
                let thorough = tier == "thorough";
                let units = crate::families::units(&family, thorough);
                let ui = units.iter().position(|u| u.tag == w.tag && u.variants.iter().any(|v| v.label == w.label && variant_items(v) == w.program)).unwrap_or(usize::MAX);
                let mut rep = Report::new(&mode, &format!("{}-{}-s{}", family, tier, shard));
                rep.tier = std::env::var("VERIF_TIER").unwrap_or_else(|_| tier.clone());
                rep.cap("the shard was stopped at the first run that did not terminate; its other results are not reported");
                let replay = obj(vec![("family", family.clone().into()), ("tier", tier.clone().into()), ("mode", mode.clone().into()), ("unit", (ui as u64).into()), ("tag", w.tag.clone().into()),
                    ("variant", w.label.clone().into()), ("program", w.program.clone().into()), ("case", obj(vec![("input", w.input.clone())]))]);
                rep.violate(format!("{}|{}|{}|{}|does-not-terminate", mode, family, w.tag, w.label),
                    format!("{} [{}]: run() has not returned after {} s on input {} (deadlock or livelock on a one-worker pool) -- program: {}", w.tag, w.label, limit, w.input.to_string(), w.program.join(" ")), replay);
                let code = rep.finish(start);
                std::process::exit(code);
            }
        }
    });
}

/// runs one variant on one input; returns the dumped relations (variant relation order mapped back
/// to the reference program's relation order) or the panic message
pub fn run_once(u: &Unit, v: &Variant, make: fn() -> Box<dyn Instance>, facts: &[Fact]) -> Result<Vec<Vec<Tuple>>, String> {
    watch_begin(u, v, facts);
    let r = catch(|| {
        let mut inst = make();
        for (r, t) in facts { inst.push(v.rel_map[*r], t); }
        inst.run();
        (0..u.prog.rels.len()).map(|r| inst.dump(v.rel_map[r])).collect()
    });
    watch_end();
    r
}

pub fn as_set(rows: &[Tuple]) -> BTreeSet<Tuple> { rows.iter().cloned().collect() }

/// C01 / C03 / C04 style oracle: every observed relation equals the reference model as a set
pub fn compare_model(cx: &mut Ctx, ui: usize, vi: usize, facts: &[Fact], got: &Result<Vec<Vec<Tuple>>, String>, want: &Db, prop: &str) -> bool {
    let u = cx.units[ui].clone();
    let v = u.variants[vi].clone();
    let case = obj(vec![("input", J::Arr(facts.iter().map(|f| fact_json(&u, f)).collect()))]);
    match got {
        Err(p) => {
            cx.rep.violate(format!("{}|{}|{}|panic|{}", prop, cx.family, u.tag, panic_sig(p)),
                format!("{} [{}] panicked: {} on input {} -- program: {}", u.tag, v.label, p, case.get("input").to_string(), variant_items(&v).join(" ")),
                cx.replay_json(ui, &v, case));
            false
        }
        Ok(rels) => {
            let mut ok = true;
            for &r in &u.observe {
                if u.prog.rels[r].lat.is_some() && rels[r].len() != want.rels[r].len() && as_set(&rels[r]) == want.rels[r].tuples().into_iter().collect() {
                    cx.rep.violate(format!("{}|{}|{}|{}|rows-per-lattice-key", prop, cx.family, u.tag, v.label),
                        format!("{} [{}]: lattice {} has {} rows for {} keys on input {} -- program: {}", u.tag, v.label, u.prog.rels[r].name, rels[r].len(), want.rels[r].len(), case.get("input").to_string(), variant_items(&v).join(" ")),
                        cx.replay_json(ui, &v, case.clone()));
                    ok = false;
                }
                let g = as_set(&rels[r]);
                let w: BTreeSet<Tuple> = want.rels[r].tuples().into_iter().collect();
                if g != w {
                    let missing: Vec<&Tuple> = w.difference(&g).collect();
                    let extra: Vec<&Tuple> = g.difference(&w).collect();
                    let kind = match (missing.is_empty(), extra.is_empty()) { (false, true) => "missing-tuples", (true, false) => "extra-tuples", _ => "missing-and-extra" };
                    cx.rep.violate(format!("{}|{}|{}|{}|{}", prop, cx.family, u.tag, v.label, kind),
                        format!("{} [{}]: relation {} missing {:?} extra {:?} on input {} -- program: {}", u.tag, v.label, u.prog.rels[r].name, missing, extra, case.get("input").to_string(), variant_items(&v).join(" ")),
                        cx.replay_json(ui, &v, case.clone()));
                    ok = false;
                    break;
                }
            }
            ok
        }
    }
}

fn mode_model(cx: &mut Ctx, prop: &str, only_unit: Option<usize>, only_input: Option<Vec<Fact>>) {
    // input budget: a fixed number of runs per shard, spread over the shard's programs
    let nprogs = (0..cx.units.len()).filter(|ui| !cx.makes(*ui).is_empty()).count().max(1);
    let mut per_shard: usize = if cx.thorough { 8_000_000 } else { 800_000 };
    if cx.family == "ds" { per_shard /= 5; } // BYODS programs carry ~10 reader rules each
    if cx.family == "par" { per_shard /= 16; } // three variants per unit, parallel runs cost ~0.3 ms each
    // the budget counts executions: a unit with many variants gets proportionally fewer inputs
    let nvariants: usize = (0..cx.units.len()).map(|ui| cx.makes(ui).len()).sum::<usize>().max(1);
    let many_variants = nvariants > 3 * nprogs;
    let nprogs = if many_variants { per_shard /= 8; nvariants } else { nprogs };
    let budget = (per_shard / nprogs).clamp(if cx.family == "ds" { 3000 } else if many_variants { 300 } else { 4100 }, 300_000);
    let max_bits = (usize::BITS - budget.leading_zeros() - 1) as usize;
    let mut inputs_desc = String::new();
    let mut sym_cache: std::collections::HashMap<String, (Vec<Vec<usize>>, String)> = Default::default();
    for ui in 0..cx.units.len() {
        let makes = cx.makes(ui);
        if makes.is_empty() { continue; }
        if only_unit.map_or(false, |o| o != ui) { continue; }
        let u = cx.units[ui].clone();
        let uni = universe(&u);
        let (sets, desc) = match &u.sym {
            None => input_sets(uni.len(), max_bits, budget),
            Some(sym) => {
                let key = format!("{:?}|{:?}", uni, sym);
                if !sym_cache.contains_key(&key) { sym_cache.insert(key.clone(), sym_input_sets(&uni, sym)); }
                sym_cache[&key].clone()
            }
        };
        if u.sym.is_none() || inputs_desc.is_empty() { inputs_desc = desc; } else if !inputs_desc.contains(" + deep: ") { inputs_desc = format!("{} + deep: {}", inputs_desc, desc); }
        cx.rep.states += 1;
        let mut unit_nontrivial = false;
        let run_input = |facts: &Vec<Fact>, cx: &mut Ctx, unit_nontrivial: &mut bool| {
            // a second input row for an existing lattice key is a caller-made duplicate (outside the premises)
            for (i, (r, t)) in facts.iter().enumerate() {
                if u.prog.rels[*r].lat.is_some() && facts[..i].iter().any(|(r2, t2)| r2 == r && t2[..t2.len() - 1] == t[..t.len() - 1]) { return; }
            }
            let want = match refeval::eval(&u.prog, &db_of(&u, facts)) { Ok(d) => d, Err(e) => { cx.rep.machinery_error(format!("reference rejects unit {}: {:?}", ui, e)); return; } };
            // differential families: the reference evaluator, run directly on each variant's own (sugared /
            // permuted / renamed) program, must agree with the unit's core program: guards the harness's expander
            if prop == "C07" || prop == "C08" {
                for v in &u.variants {
                    if v.prog.macros.is_empty() && v.prog != u.prog {
                        if let Ok(w2) = refeval::eval(&v.prog, &db_of(&u, facts)) {
                            if w2 != want { cx.rep.machinery_error(format!("unit {} [{}]: the harness expander and the reference evaluator disagree on input {:?}", ui, v.label, facts)); return; }
                        }
                    }
                }
            }
            let derived: usize = want.rels.iter().map(|r| r.len()).sum::<usize>();
            let given: usize = db_of(&u, facts).rels.iter().map(|r| r.len()).sum();
            if derived > given { *unit_nontrivial = true; cx.rep.nontrivial += 1; }
            for (vi, make) in &makes {
                let got = run_once(&u, &u.variants[*vi], *make, facts);
                cx.rep.executions += 1;
                cx.rep.transitions += 1;
                compare_model(cx, ui, *vi, facts, &got, &want, prop);
            }
            cx.rep.states += 1;
            cx.rep.evaluations += 1;
        };
        if let Some(inp) = &only_input { run_input(inp, cx, &mut unit_nontrivial); continue; }
        for s in &sets {
            let facts: Vec<Fact> = s.iter().map(|i| uni[*i].clone()).collect();
            run_input(&facts, cx, &mut unit_nontrivial);
            if (cx.thorough || prop == "C06") && facts.len() >= 2 {
                // the order of the tuples in the input vectors is part of the input
                let mut rev = facts.clone(); rev.reverse();
                run_input(&rev, cx, &mut unit_nontrivial);
                if prop == "C06" && facts.len() >= 3 { let mut rot = facts.clone(); rot.rotate_left(1); run_input(&rot, cx, &mut unit_nontrivial); }
            }
        }
        cx.rep.add_extra("programs", 1);
        if unit_nontrivial { cx.rep.add_extra("programs_deriving_something", 1); }
        if cx.rep.samples.len() < 3 { let v = &u.variants[0]; cx.rep.sample(obj(vec![("program", variant_items(v).into()), ("inputs", sets.len().into()), ("tag", u.tag.clone().into())])); }
    }
    cx.rep.extra("inputs_per_program", inputs_desc);
}

/// C05: relations are sets, inputs are never lost. Evaluated on every input of the bound plus the
/// same inputs with one fact given twice (duplicates the caller put in are the only allowed surplus).
fn mode_c05(cx: &mut Ctx, only_unit: Option<usize>, only_input: Option<Vec<Fact>>) {
    let nprogs = (0..cx.units.len()).filter(|ui| !cx.makes(*ui).is_empty()).count().max(1);
    let mut per_shard: usize = if cx.thorough { 8_000_000 } else { 220_000 };
    if cx.family == "par" { per_shard /= 16; }
    let budget = (per_shard / nprogs).clamp(if cx.family == "par" { 500 } else { 4100 }, 300_000);
    let max_bits = (usize::BITS - budget.leading_zeros() - 1) as usize;
    for ui in 0..cx.units.len() {
        let makes = cx.makes(ui);
        if makes.is_empty() || only_unit.map_or(false, |o| o != ui) { continue; }
        let u = cx.units[ui].clone();
        let uni = universe(&u);
        let (sets, desc) = input_sets(uni.len(), max_bits, budget);
        cx.rep.extra("inputs_per_program", desc);
        cx.rep.states += 1;
        let mut run_input = |facts: &Vec<Fact>, cx: &mut Ctx| {
            for (i, (r, t)) in facts.iter().enumerate() {
                if u.prog.rels[*r].lat.is_some() && facts[..i].iter().any(|(r2, t2)| r2 == r && t2[..t2.len() - 1] == t[..t.len() - 1]) { return; }
            }
            cx.rep.states += 1;
            cx.rep.evaluations += 1;
            for (vi, make) in &makes {
                let v = &u.variants[*vi];
                let got = run_once(&u, v, *make, facts);
                cx.rep.executions += 1;
                cx.rep.transitions += 1;
                let case = obj(vec![("input", J::Arr(facts.iter().map(|f| fact_json(&u, f)).collect()))]);
                let mut bad = |what: &str, detail: String, cx: &mut Ctx| {
                    cx.rep.violate(format!("C05|{}|{}|{}|{}", cx.family, u.tag, v.label, what),
                        format!("{} [{}]: {} on input {} -- program: {}", u.tag, v.label, detail, case.get("input").to_string(), variant_items(v).join(" ")),
                        cx.replay_json(ui, v, case.clone()));
                };
                match got {
                    Err(p) => bad(&format!("panic|{}", panic_sig(&p)), format!("panicked: {}", p), cx),
                    Ok(rels) => {
                        let mut derived_dup_possible = false;
                        for &r in &u.observe {
                            let rows = &rels[r];
                            let input_rows: Vec<&Tuple> = facts.iter().filter(|(fr, _)| *fr == r).map(|(_, t)| t).collect();
                            let is_lat = u.prog.rels[r].lat.is_some();
                            let keyof = |t: &Tuple| -> Tuple { if is_lat { t[..t.len() - 1].to_vec() } else { t.clone() } };
                            // (3) the input vector is a prefix of the result vector (lattice rows: same key, value may only grow)
                            if rows.len() < input_rows.len() || rows.iter().zip(&input_rows).any(|(a, b)| keyof(a) != keyof(b)) {
                                bad("input-prefix-lost", format!("relation {}: input rows {:?} are not a prefix of the result rows {:?}", u.prog.rels[r].name, input_rows, rows), cx);
                            }
                            if is_lat {
                                let ty = u.prog.rels[r].lat.as_ref().unwrap();
                                for (a, b) in rows.iter().zip(&input_rows) {
                                    if !vfn::code::leq(ty, b[b.len() - 1], a[a.len() - 1]) { bad("lattice-input-value-decreased", format!("relation {}: input row {:?} became {:?}", u.prog.rels[r].name, b, a), cx); }
                                }
                            }
                            // (2)/(4) surplus rows = surplus rows of the input
                            let distinct: BTreeSet<Tuple> = rows.iter().map(|t| keyof(t)).collect();
                            let in_distinct: BTreeSet<Tuple> = input_rows.iter().map(|t| keyof(t)).collect();
                            let surplus = rows.len() - distinct.len();
                            let in_surplus = input_rows.len() - in_distinct.len();
                            if surplus != in_surplus {
                                bad(if is_lat { "second-row-for-lattice-key" } else { "duplicate-row" },
                                    format!("relation {} has {} rows but {} distinct {} (input had {} surplus rows): {:?}", u.prog.rels[r].name, rows.len(), distinct.len(), if is_lat { "keys" } else { "tuples" }, in_surplus, rows), cx);
                            }
                            if rows.len() > input_rows.len() { derived_dup_possible = true; }
                        }
                        if derived_dup_possible { cx.rep.nontrivial += 1; }
                    }
                }
            }
        };
        if let Some(inp) = &only_input { run_input(inp, cx); continue; }
        for s in &sets {
            let facts: Vec<Fact> = s.iter().map(|i| uni[*i].clone()).collect();
            run_input(&facts, cx);
            // the same input with one (non-lattice) fact given twice, at the front and at the back
            if !facts.is_empty() && facts.len() <= 3 {
                for d in 0..facts.len() {
                    if u.prog.rels[facts[d].0].lat.is_some() { continue; }
                    let mut f2 = facts.clone(); f2.push(facts[d].clone());
                    run_input(&f2, cx);
                    let mut f3 = vec![facts[d].clone()]; f3.extend(facts.iter().cloned());
                    run_input(&f3, cx);
                }
            }
        }
        cx.rep.add_extra("programs", 1);
        if cx.rep.samples.len() < 3 { let v = &u.variants[0]; cx.rep.sample(obj(vec![("program", variant_items(v).into()), ("inputs", sets.len().into()), ("tag", u.tag.clone().into())])); }
    }
}

#[derive(Clone, Debug)]
pub enum Step { Run, Add(Vec<Fact>) }

/// runs a history on one instance, dumping all relations after every Run
pub fn run_history(u: &Unit, v: &Variant, make: fn() -> Box<dyn Instance>, hist: &[Step]) -> Result<Vec<Vec<Vec<Tuple>>>, String> {
    let all: Vec<Fact> = hist.iter().flat_map(|s| match s { Step::Add(fs) => fs.clone(), Step::Run => vec![] }).collect();
    watch_begin(u, v, &all);
    let r = run_history_inner(u, v, make, hist);
    watch_end();
    r
}
fn run_history_inner(u: &Unit, v: &Variant, make: fn() -> Box<dyn Instance>, hist: &[Step]) -> Result<Vec<Vec<Vec<Tuple>>>, String> {
    catch(|| {
        let mut inst = make();
        let mut snaps = vec![];
        for s in hist {
            match s {
                Step::Add(fs) => for (r, t) in fs { inst.push(v.rel_map[*r], t); },
                Step::Run => { inst.run(); snaps.push((0..u.prog.rels.len()).map(|r| inst.dump(v.rel_map[r])).collect()); }
            }
        }
        snaps
    })
}

fn has_agg_or_neg(p: &Prog) -> bool {
    fn go(items: &[BodyItem]) -> bool { items.iter().any(|b| match b { BodyItem::Agg { .. } | BodyItem::Neg { .. } => true, BodyItem::Disj(a) => a.iter().any(|x| go(x)), _ => false }) }
    p.rules.iter().any(|r| go(&r.body))
}

/// C13: run() is idempotent; monotone re-runs equal a fresh run on the union of all inputs
fn mode_c13(cx: &mut Ctx, only_unit: Option<usize>, only_case: Option<(Vec<Fact>, Vec<Vec<Fact>>)>) {
    let nprogs = (0..cx.units.len()).filter(|ui| !cx.makes(*ui).is_empty()).count().max(1);
    let mut per_shard: usize = if cx.thorough { 6_000_000 } else { 280_000 };
    if cx.family == "par" { per_shard /= 20; }
    if cx.family == "dsrerun" { per_shard /= 200; } // one program per shard, ~10 reader rules, 27-54 candidate facts to add
    let budget = (per_shard / nprogs).clamp(if cx.family == "par" { 150 } else { 300 }, 100_000);
    for ui in 0..cx.units.len() {
        let makes = cx.makes(ui);
        if makes.is_empty() || only_unit.map_or(false, |o| o != ui) { continue; }
        let u = cx.units[ui].clone();
        let uni = universe(&u);
        let monotone = !has_agg_or_neg(&u.prog);
        // initial inputs: all subsets up to the budget; additions: every single fact (and every pair in the thorough tier)
        let adds: Vec<Vec<usize>> = {
            let mut a: Vec<Vec<usize>> = (0..uni.len()).map(|i| vec![i]).collect();
            if cx.thorough { for i in 0..uni.len() { for j in i + 1..uni.len() { a.push(vec![i, j]); } } }
            a
        };
        let per_init = 1 + adds.len() * if cx.thorough { 2 } else { 1 };
        let (sets, desc) = input_sets(uni.len(), 0, (budget / per_init).max(40));
        cx.rep.extra("initial_inputs_per_program", desc);
        cx.rep.extra("additions", format!("{} fact sets per run; history depth {}", adds.len(), if cx.thorough { 3 } else { 2 }));
        cx.rep.states += 1;
        let lat_key_clash = |facts: &[Fact]| -> bool {
            facts.iter().enumerate().any(|(i, (r, t))| u.prog.rels[*r].lat.is_some() && facts[..i].iter().any(|(r2, t2)| r2 == r && t2[..t2.len() - 1] == t[..t.len() - 1]))
        };
        let mut run_case = |init: &Vec<Fact>, more: &Vec<Vec<Fact>>, cx: &mut Ctx| {
            let mut all: Vec<Fact> = init.clone();
            for m in more { all.extend(m.iter().cloned()); }
            if lat_key_clash(&all) { return; }
            // no caller-made duplicates: a fact is only added if it was not given before
            for (i, f) in all.iter().enumerate() { if all[..i].contains(f) { return; } }
            let mut hist = vec![Step::Add(init.clone()), Step::Run, Step::Run];
            for m in more { hist.push(Step::Add(m.clone())); hist.push(Step::Run); }
            // expected state after each run
            let mut wants: Vec<Option<Db>> = vec![];
            let mut acc = init.clone();
            let w0 = refeval::eval(&u.prog, &db_of(&u, &acc)).ok();
            wants.push(w0.clone()); wants.push(w0);
            let mut cur_ref = wants[0].clone();
            for m in more {
                // a row for a lattice key the relation already holds is a caller-made duplicate key (outside C13's premises)
                if let Some(cur) = &cur_ref {
                    for (r, t) in m { if let crate::refeval::RelData::Lat(mm) = &cur.rels[*r] { if mm.contains_key(&t[..t.len() - 1]) { return; } } }
                }
                acc.extend(m.iter().cloned());
                cur_ref = refeval::eval(&u.prog, &db_of(&u, &acc)).ok();
                wants.push(if monotone { cur_ref.clone() } else { None });
            }
            cx.rep.states += 1;
            cx.rep.evaluations += 1;
            if !more.is_empty() { cx.rep.nontrivial += 1; }
            for (vi, make) in &makes {
                let v = &u.variants[*vi];
                let got = run_history(&u, v, *make, &hist);
                cx.rep.executions += 1;
                cx.rep.transitions += hist.len() as u64;
                let case = obj(vec![("input", J::Arr(init.iter().map(|f| fact_json(&u, f)).collect())),
                                    ("adds", J::Arr(more.iter().map(|m| J::Arr(m.iter().map(|f| fact_json(&u, f)).collect())).collect()))]);
                let hist_shape = if more.is_empty() { "run;run".to_string() } else { format!("run;run{}", ";add;run".repeat(more.len())) };
                let mut bad = |what: &str, detail: String, cx: &mut Ctx| {
                    cx.rep.violate(format!("C13|{}|{}|{}|{}|{}", cx.family, u.tag, v.label, hist_shape, what),
                        format!("{} [{}] history {}: {} -- initial input {} additions {} -- program: {}", u.tag, v.label, hist_shape, detail, case.get("input").to_string(), case.get("adds").to_string(), variant_items(v).join(" ")),
                        cx.replay_json(ui, v, case.clone()));
                };
                match got {
                    Err(p) => bad(&format!("panic|{}", panic_sig(&p)), format!("panicked: {}", p), cx),
                    Ok(snaps) => {
                        // idempotence: second run leaves every relation unchanged as a set (all programs)
                        for &r in &u.observe {
                            if as_set(&snaps[0][r]) != as_set(&snaps[1][r]) {
                                bad("second-run-changed-relation", format!("relation {} was {:?} after the first run and {:?} after the second", u.prog.rels[r].name, as_set(&snaps[0][r]), as_set(&snaps[1][r])), cx);
                                break;
                            }
                        }
                        // every run equals the reference on the union of inputs so far (monotone programs; first run: all programs)
                        for (k, snap) in snaps.iter().enumerate() {
                            let Some(w) = &wants[k] else { continue };
                            for &r in &u.observe {
                                let g = as_set(&snap[r]);
                                let wset: BTreeSet<Tuple> = w.rels[r].tuples().into_iter().collect();
                                if g != wset {
                                    if k == 0 { break; } // a wrong first run is C01/C03/C04's finding, not C13's
                                    bad(if k == 1 { "second-run-differs-from-fixpoint" } else { "rerun-differs-from-fresh-run" },
                                        format!("after run #{} relation {} = {:?}, fresh run on all inputs gives {:?}", k + 1, u.prog.rels[r].name, g, wset), cx);
                                    break;
                                }
                            }
                        }
                    }
                }
            }
        };
        if let Some((init, more)) = &only_case { run_case(init, more, cx); continue; }
        for s in &sets {
            let init: Vec<Fact> = s.iter().map(|i| uni[*i].clone()).collect();
            run_case(&init, &vec![], cx);
            for a in &adds {
                let m: Vec<Fact> = a.iter().map(|i| uni[*i].clone()).collect();
                run_case(&init, &vec![m.clone()], cx);
                if cx.thorough && a.len() == 1 {
                    for b in adds.iter().filter(|b| b.len() == 1 && b[0] > a[0]) {
                        let m2: Vec<Fact> = b.iter().map(|i| uni[*i].clone()).collect();
                        run_case(&init, &vec![m.clone(), m2], cx);
                    }
                }
            }
        }
        cx.rep.add_extra("programs", 1);
        if cx.rep.samples.len() < 3 { let v = &u.variants[0]; cx.rep.sample(obj(vec![("program", variant_items(v).into()), ("initial_inputs", sets.len().into()), ("additions", adds.len().into()), ("tag", u.tag.clone().into())])); }
    }
}

#[cfg(feature = "hooks")]
fn virtual_clock(on: bool) { ascent::verif::set_virtual_clock(on) }
#[cfg(feature = "hooks")]
fn clock_readings() -> u64 { ascent::verif::virtual_clock_readings() }
#[cfg(not(feature = "hooks"))]
fn virtual_clock(_on: bool) { panic!("built without the verification hooks") }
#[cfg(not(feature = "hooks"))]
fn clock_readings() -> u64 { panic!("built without the verification hooks") }

/// every row is derivable (subset of the model), every lattice value is below the final one
fn sound_partial(u: &Unit, rels: &[Vec<Tuple>], want: &Db) -> Option<String> {
    for &r in &u.observe {
        match &want.rels[r] {
            refeval::RelData::Set(s) => for t in &rels[r] { if !s.contains(t) { return Some(format!("relation {} holds {:?}, which is not in the model", u.prog.rels[r].name, t)); } },
            refeval::RelData::Lat(m) => {
                let ty = u.prog.rels[r].lat.as_ref().unwrap();
                for t in &rels[r] {
                    let (k, v) = t.split_at(t.len() - 1);
                    match m.get(k) { None => return Some(format!("lattice {} holds key {:?}, which has no derivable value", u.prog.rels[r].name, k)),
                        Some(fin) => if !vfn::code::leq(ty, v[0], *fin) { return Some(format!("lattice {} holds {:?}, above the final value {}", u.prog.rels[r].name, t, fin)); } }
                }
            }
        }
    }
    None
}
fn equals_model(u: &Unit, rels: &[Vec<Tuple>], want: &Db) -> Option<String> {
    for &r in &u.observe {
        let g = as_set(&rels[r]);
        let w: BTreeSet<Tuple> = want.rels[r].tuples().into_iter().collect();
        if g != w { return Some(format!("relation {} = {:?}, fixed point = {:?}", u.prog.rels[r].name, g, w)); }
    }
    None
}

/// C14: the deadline is made to strike at every position where it can be observed (virtual clock:
/// every reading advances by 1 ns; run_timeout(t ns) for every t in 0..=M+1)
fn mode_c14(cx: &mut Ctx, only_unit: Option<usize>, only_case: Option<(Vec<Fact>, Vec<u64>)>) {
    let nprogs = (0..cx.units.len()).filter(|ui| !cx.makes(*ui).is_empty()).count().max(1);
    let per_shard: usize = if cx.thorough { 3_000_000 } else { 150_000 };
    let budget = (per_shard / nprogs / 40).clamp(30, 4100);
    for ui in 0..cx.units.len() {
        let makes = cx.makes(ui);
        if makes.is_empty() || only_unit.map_or(false, |o| o != ui) { continue; }
        let u = cx.units[ui].clone();
        let (vi, make) = makes[0];
        let v = u.variants[vi].clone();
        let uni = universe(&u);
        let (sets, desc) = input_sets(uni.len(), 0, budget);
        cx.rep.extra("inputs_per_program", desc);
        cx.rep.states += 1;
        let dump = |inst: &Box<dyn Instance>| -> Vec<Vec<Tuple>> { (0..u.prog.rels.len()).map(|r| inst.dump(v.rel_map[r])).collect() };
        let mut run_case = |facts: &Vec<Fact>, ts: Option<&Vec<u64>>, cx: &mut Ctx| {
            for (i, (r, t)) in facts.iter().enumerate() {
                if u.prog.rels[*r].lat.is_some() && facts[..i].iter().any(|(r2, t2)| r2 == r && t2[..t2.len() - 1] == t[..t.len() - 1]) { return; }
            }
            let Ok(want) = refeval::eval(&u.prog, &db_of(&u, facts)) else { return };
            let case_json = |ts: &[u64]| obj(vec![("input", J::Arr(facts.iter().map(|f| fact_json(&u, f)).collect())), ("timeouts_ns", J::Arr(ts.iter().map(|t| J::Int(*t as i64)).collect()))]);
            let mut bad = |what: &str, ts: &[u64], detail: String, cx: &mut Ctx| {
                let case = case_json(ts);
                cx.rep.violate(format!("C14|{}|{}|{}", cx.family, u.tag, what),
                    format!("{} run_timeout at virtual deadlines {:?} ns: {} -- input {} -- program: {}", u.tag, ts, detail, case.get("input").to_string(), variant_items(&v).join(" ")),
                    cx.replay_json(ui, &v, case));
            };
            // uninterrupted run under the virtual clock: number of clock readings M
            let full = catch(|| { let mut inst = make(); for (r, t) in facts { inst.push(v.rel_map[*r], t); } virtual_clock(true); let r = inst.run_timeout(u64::MAX - 1); let m = clock_readings(); virtual_clock(false); (r, m, dump(&inst)) });
            cx.rep.executions += 1;
            let m = match full {
                Err(p) => { virtual_clock(false); bad(&format!("panic|{}", panic_sig(&p)), &[], format!("uninterrupted run panicked: {}", p), cx); return; }
                Ok((r, m, rels)) => {
                    if r != Some(true) { bad("uninterrupted-returned-false", &[], format!("run_timeout(huge) returned {:?}", r), cx); }
                    if let Some(d) = equals_model(&u, &rels, &want) { bad("uninterrupted-differs", &[], d, cx); return; }
                    m
                }
            };
            // one history: run_timeout(t) for each t of `ts` (clock restarted per call), then run()
            let trace = std::env::var("VERIF_TRACE").is_ok();
            let mut history = |ts: &[u64], cx: &mut Ctx| {
                if trace { eprintln!("[trace] {} input {:?} deadlines {:?}", u.tag, facts, ts); }
                cx.rep.states += 1;
                cx.rep.evaluations += 1;
                let res = catch(|| {
                    let mut inst = make();
                    for (r, t) in facts { inst.push(v.rel_map[*r], t); }
                    let mut steps = vec![];
                    for t in ts { virtual_clock(true); let r = inst.run_timeout(*t); virtual_clock(false); steps.push((r, dump(&inst))); }
                    inst.run();
                    (steps, dump(&inst))
                });
                cx.rep.executions += 1;
                cx.rep.transitions += ts.len() as u64 + 1;
                match res {
                    Err(p) => { virtual_clock(false); bad(&format!("panic|{}", panic_sig(&p)), ts, format!("panicked: {}", p), cx); }
                    Ok((steps, fin)) => {
                        let mut interrupted = false;
                        for (k, (r, rels)) in steps.iter().enumerate() {
                            match r {
                                Some(true) => if let Some(d) = equals_model(&u, rels, &want) { bad("returned-true-before-fixpoint", ts, format!("call #{} returned true but {}", k + 1, d), cx); },
                                Some(false) => { interrupted = true; if let Some(d) = sound_partial(&u, rels, &want) { bad("unsound-partial-state", ts, format!("call #{} returned false and {}", k + 1, d), cx); } },
                                None => bad("no-run_timeout", ts, "run_timeout not generated".into(), cx),
                            }
                        }
                        if interrupted { cx.rep.nontrivial += 1; }
                        if let Some(d) = equals_model(&u, &fin, &want) { bad("resumed-run-differs-from-fixpoint", ts, format!("after the resuming run() {}", d), cx); }
                    }
                }
            };
            if let Some(ts) = ts { history(ts, cx); return; }
            let long_run = !cx.thorough && m > 24;
            for t in 0..=m + 1 {
                history(&[t], cx);
                // the same deadline again (repeated interruption at the same relative point; long runs: on the grid below)
                if !long_run { history(&[t, t], cx); }
            }
            if (cx.thorough && facts.len() <= 3) || facts.len() <= 2 {
                // all pairs of deadlines; runs with many clock readings: all pairs on the grid of every g-th reading
                let g = if cx.thorough { (m / 32).max(1) } else if m <= 24 { 1 } else { m / 8 };
                if g > 1 { cx.rep.extra("double_interruptions", format!("all pairs (t1, t2) of deadlines; runs with more than {} clock readings: all pairs on a grid of every k-th reading, k = readings/{}", if cx.thorough { 32 } else { 24 }, if cx.thorough { 32 } else { 8 })); }
                for t1 in (0..=m + 1).step_by(g as usize) { for t2 in (0..=m + 1).step_by(g as usize) { if t1 != t2 || long_run { history(&[t1, t2], cx); } } }
            }
            cx.rep.add_extra("clock_readings_max", 0);
            let cur = cx.rep.extras.get("clock_readings_max").and_then(|v| v.as_u64()).unwrap_or(0);
            if m > cur { cx.rep.extra("clock_readings_max", m); }
        };
        if let Some((facts, ts)) = &only_case { run_case(facts, Some(ts), cx); continue; }
        for s in &sets {
            let facts: Vec<Fact> = s.iter().map(|i| uni[*i].clone()).collect();
            run_case(&facts, None, cx);
        }
        cx.rep.add_extra("programs", 1);
        if cx.rep.samples.len() < 3 { cx.rep.sample(obj(vec![("program", variant_items(&v).into()), ("inputs", sets.len().into()), ("tag", u.tag.clone().into())])); }
    }
}

/// entry point of every generated harness binary
pub fn main(family: &str, tier: &str, shard: usize, nshards: usize, table: &[Entry]) -> ! {
    // Everything runs on the single worker of a one-thread rayon pool: parallel programs then execute
    // their default (sequential, nothing stolen) schedule, deterministically; other schedules are the
    // business of the vsched engine.
    let pool = ascent::rayon::ThreadPoolBuilder::new().num_threads(1).stack_size(64 << 20).build().unwrap();
    pool.install(|| main_inner(family, tier, shard, nshards, table))
}

fn main_inner(family: &str, tier: &str, shard: usize, nshards: usize, table: &[Entry]) -> ! {
    let start = std::time::Instant::now();
    silence_panics();
    let args: Vec<String> = std::env::args().collect();
    let mode = args.iter().position(|a| a == "--mode").map(|i| args[i + 1].clone()).unwrap_or_else(|| "C01".into());
    let thorough = tier == "thorough";
    let units = crate::families::units(family, thorough);
    start_watchdog(family.to_string(), tier.to_string(), mode.clone(), shard, start);
    let mut rep = Report::new(&mode, &format!("{}-{}-s{}", family, tier, shard));
    rep.tier = std::env::var("VERIF_TIER").unwrap_or_else(|_| tier.to_string());
    // the generator and this binary must agree on the enumeration and on the printed text
    for e in table {
        if e.unit >= units.len() || e.unit % nshards != shard { rep.machinery_error(format!("table entry for unit {} does not belong to shard {}", e.unit, shard)); continue; }
        let txt = variant_items(&units[e.unit].variants[e.variant]).join("\n");
        if text_hash(&txt) != e.hash { rep.machinery_error(format!("unit {} variant {}: compiled text differs from the enumerated program", e.unit, e.variant)); }
    }
    let replay = crate::report::replay_arg();
    let (only_unit, only_input) = match &replay {
        None => (None, None),
        Some(r) => {
            let ui = r.get("unit").as_u64().unwrap() as usize;
            let u = &units[ui];
            let inp: Option<Vec<Fact>> = r.get("case").get("input").as_array().map(|a| a.iter().map(|f| {
                let name = f.at(0).as_str().unwrap();
                (u.prog.rel(name), f.at(1).as_array().unwrap().iter().map(|x| x.as_i64().unwrap() as i32).collect())
            }).collect());
            (Some(ui), inp)
        }
    };
    // --only-tag <prefix>: restrict to units whose tag starts with the prefix (one provider of the ds family)
    let mut units = units;
    if let Some(i) = args.iter().position(|a| a == "--only-tag") { let pre = args[i + 1].clone(); for u in units.iter_mut() { if !u.tag.starts_with(&pre) { u.variants.clear(); } } }
    let table: Vec<&Entry> = table.iter().filter(|e| !units[e.unit].variants.is_empty()).collect();
    let mut cx = Ctx { family: family.into(), mode: mode.clone(), thorough, units, table: &table, rep };
    if cx.rep.machinery_errors.is_empty() {
        match mode.as_str() {
            "C01" | "C02" | "C03" | "C04" | "C06" | "C07" | "C08" | "C09" | "C10" | "C11" | "C12" => { let m = mode.clone(); mode_model(&mut cx, &m, only_unit, only_input) }
            "C05" => mode_c05(&mut cx, only_unit, only_input),
            "C14" => {
                let case = replay.as_ref().map(|r| (only_input.clone().unwrap_or_default(), r.get("case").get("timeouts_ns").as_array().map(|a| a.iter().map(|x| x.as_u64().unwrap()).collect()).unwrap_or_default()));
                mode_c14(&mut cx, only_unit, case)
            }
            "C13" => {
                let case = replay.as_ref().map(|r| {
                    let u = &cx.units[only_unit.unwrap()];
                    let parse = |a: &J| -> Vec<Fact> { a.as_array().map(|a| a.iter().map(|f| (u.prog.rel(f.at(0).as_str().unwrap()), f.at(1).as_array().unwrap().iter().map(|x| x.as_i64().unwrap() as i32).collect())).collect()).unwrap_or_default() };
                    (parse(r.get("case").get("input")), r.get("case").get("adds").as_array().map(|a| a.iter().map(|m| parse(m)).collect()).unwrap_or_default())
                });
                mode_c13(&mut cx, only_unit, case)
            }
            other => cx.rep.machinery_error(format!("unknown mode {}", other)),
        }
    }
    cx.rep.rule = format!("family {} ({} programs in this shard's share), every input of the bound run on the compiled program and on the naive reference evaluator; non-trivial = the model contains a tuple that is not an input fact", family, cx.rep.extras.get("programs").and_then(|v| v.as_u64()).unwrap_or(0));
    let code = cx.rep.finish(start);
    std::process::exit(code)
}

//! Writes the batch crates: every unit's variants become modules of one of `nshards` binaries.
use crate::families::{MacroKind, Unit, Variant};
use crate::harness::{text_hash, variant_items};
use std::fmt::Write;
use std::path::Path;

fn tuple_expr(arity: usize, lat: bool, par: bool) -> String {
    let mut cols: Vec<String> = (0..arity).map(|i| format!("t[{}]", i)).collect();
    if lat { cols[arity - 1] = format!("vfn::VLat::dec(t[{}])", arity - 1); }
    let tup = if arity == 1 { format!("({},)", cols[0]) } else { format!("({})", cols.join(", ")) };
    if lat && par { format!("::ascent::verif::RwLock::new({})", tup) } else { tup }
}

fn dump_expr(field: &str, arity: usize, lat: bool, par: bool) -> String {
    let mut cols: Vec<String> = (0..arity).map(|i| format!("t.{}", i)).collect();
    if lat { cols[arity - 1] = format!("vfn::VLat::enc(&t.{})", arity - 1); }
    let lock = if lat && par { "let t = t.read().unwrap(); " } else { "" };
    format!("self.0.{}.iter().map(|t| {{ {}vec![{}] }}).collect()", field, lock, cols.join(", "))
}

pub fn variant_module(name: &str, v: &Variant) -> String {
    let items = variant_items(v);
    let p = &v.prog;
    let par = v.is_par();
    let mac = match v.kind { MacroKind::Ascent => "ascent", MacroKind::AscentPar => "ascent_par", MacroKind::AscentRun => "ascent_run", MacroKind::AscentRunPar => "ascent_run_par" };
    let mut s = String::new();
    writeln!(s, "pub mod {} {{", name).unwrap();
    writeln!(s, "   #![allow(warnings)]").unwrap();
    writeln!(s, "   use prog::vfn;").unwrap();
    writeln!(s, "   pub const KONST0: i32 = 0; pub const KONST1: i32 = 1; pub const KONST2: i32 = 2;").unwrap();
    match v.kind {
        MacroKind::Ascent | MacroKind::AscentPar => {
            let generic = v.generic;
            let items = prep_items(v, &items, name, &mut s);
            writeln!(s, "   ::ascent::{}! {{", mac).unwrap();
            for a in &v.attrs { writeln!(s, "      {}", a).unwrap(); }
            if generic {
                if v.flags.iter().any(|f| f == "impl-signature") {
                    writeln!(s, "      pub struct P<T>;").unwrap();
                    writeln!(s, "      impl<T: Clone + Eq + ::std::hash::Hash> P<T>;").unwrap();
                } else {
                    writeln!(s, "      pub struct P<T: Clone + Eq + ::std::hash::Hash>;").unwrap();
                }
            } else { writeln!(s, "      pub struct P;").unwrap(); }
            for it in &items { writeln!(s, "      {}", it).unwrap(); }
            writeln!(s, "   }}").unwrap();
            let tparam: String = v.flags.iter().find_map(|f| f.strip_prefix("T=")).unwrap_or("i32").to_string();
            let tparam = if tparam == "Sym" { "vfn::Sym".to_string() } else { tparam };
            let perm: usize = v.flags.iter().find_map(|f| f.strip_prefix("perm=")).and_then(|x| x.parse().ok()).unwrap_or(0);
            let pty_owned = format!("P<{}>", tparam);
            let pty: &str = if generic { &pty_owned } else { "P" };
            let lazy = v.flags.iter().any(|f| f == "init-tls");
            if lazy {
                writeln!(s, "   pub struct I {{ inputs: Vec<Vec<Vec<i32>>>, p: Option<{}> }}", pty).unwrap();
                writeln!(s, "   impl I {{ fn get(&self) -> &{} {{ self.p.as_ref().expect(\"run first\") }} }}", pty).unwrap();
            } else {
                writeln!(s, "   pub struct I({});", pty).unwrap();
            }
            writeln!(s, "   impl prog::harness::Instance for I {{").unwrap();
            if lazy {
                writeln!(s, "      fn push(&mut self, rel: usize, t: &[i32]) {{ self.inputs[rel].push(t.to_vec()); }}").unwrap();
                writeln!(s, "      fn run(&mut self) {{ vfn::set_init_inputs(self.inputs.clone()); let mut p = <{}>::default(); p.run(); self.p = Some(p); }}", pty).unwrap();
            } else {
                writeln!(s, "      fn push(&mut self, rel: usize, t: &[i32]) {{ match rel {{").unwrap();
                for (i, r) in p.rels.iter().enumerate() {
                    if r.ds.is_some() { writeln!(s, "         {} => panic!(\"no input vector for a BYODS relation\"),", i).unwrap(); continue; }
                    let te = if generic && tparam != "i32" { tuple_expr(r.arity, false, par).replace("t[", &format!("vfn::conv::<{}>({}, t[", tparam, perm)).replace("]", "])") } else { tuple_expr(r.arity, r.lat.is_some(), par) };
                    writeln!(s, "         {} => {{ self.0.{}.push({}); }}", i, r.name, te).unwrap();
                }
                writeln!(s, "         _ => unreachable!() }} }}").unwrap();
                writeln!(s, "      fn run(&mut self) {{ self.0.run(); }}").unwrap();
                if v.attrs.iter().any(|a| a.contains("generate_run_timeout")) {
                    writeln!(s, "      fn run_timeout(&mut self, nanos: u64) -> Option<bool> {{ Some(self.0.run_timeout(::std::time::Duration::from_nanos(nanos))) }}").unwrap();
                }
            }
            writeln!(s, "      fn dump(&self, rel: usize) -> Vec<Vec<i32>> {{ match rel {{").unwrap();
            for (i, r) in p.rels.iter().enumerate() {
                if r.ds.is_some() { writeln!(s, "         {} => vec![],", i).unwrap(); continue; }
                let mut d = dump_expr(&r.name, r.arity, r.lat.is_some(), par);
                if generic && tparam != "i32" { for c in 0..r.arity { d = d.replace(&format!("t.{}", c), &format!("vfn::unconv({}, &t.{})", perm, c)); } }
                writeln!(s, "         {} => {},", i, if lazy { d.replace("self.0.", "self.get().") } else { d }).unwrap();
            }
            writeln!(s, "         _ => unreachable!() }} }}").unwrap();
            writeln!(s, "      fn summary(&self) -> String {{ {}.scc_times_summary() }}", if lazy { "self.get()" } else { "self.0" }).unwrap();
            writeln!(s, "   }}").unwrap();
            if lazy {
                writeln!(s, "   pub fn make() -> Box<dyn prog::harness::Instance> {{ Box::new(I {{ inputs: vec![vec![]; {}], p: None }}) }}", p.rels.len()).unwrap();
            } else {
                writeln!(s, "   pub fn make() -> Box<dyn prog::harness::Instance> {{ Box::new(I(<{}>::default())) }}", pty).unwrap();
            }
        }
        MacroKind::AscentRun | MacroKind::AscentRunPar => {
            // inputs are captured from locals; the result struct cannot be named outside the block,
            // so the relations are dumped inside the function
            let items = prep_items(v, &items, name, &mut s);
            writeln!(s, "   pub struct I {{ inputs: Vec<Vec<Vec<i32>>>, out: Vec<Vec<Vec<i32>>> }}").unwrap();
            writeln!(s, "   struct W<T>(T);").unwrap();
            writeln!(s, "   impl prog::harness::Instance for I {{").unwrap();
            writeln!(s, "      fn push(&mut self, rel: usize, t: &[i32]) {{ self.inputs[rel].push(t.to_vec()); }}").unwrap();
            writeln!(s, "      fn run(&mut self) {{").unwrap();
            for (i, r) in p.rels.iter().enumerate() {
                if r.ds.is_some() { continue; }
                let coll = if par && r.lat.is_some() { format!("self.inputs[{}].iter().map(|t| {}).collect()", i, tuple_expr(r.arity, true, true)) } else { format!("self.inputs[{}].iter().map(|t| {}).collect()", i, tuple_expr(r.arity, r.lat.is_some(), false)) };
                let mut cols: Vec<String> = vec!["i32".into(); r.arity];
                if let Some(t) = &r.lat { cols[r.arity - 1] = crate::print::lat_rust_ty(t).into(); }
                let tup = if r.arity == 1 { format!("({},)", cols[0]) } else { format!("({})", cols.join(", ")) };
                let vty = if par && r.lat.is_some() { format!("::ascent::boxcar::Vec<::ascent::verif::RwLock<{}>>", tup) } else if par { format!("::ascent::boxcar::Vec<{}>", tup) } else { format!("Vec<{}>", tup) };
                writeln!(s, "         let init_{}: {} = {};", r.name, vty, coll).unwrap();
            }
            writeln!(s, "         let res = ::ascent::{}! {{", mac).unwrap();
            for a in &v.attrs { writeln!(s, "            {}", a).unwrap(); }
            for it in items.iter() {
                // declarations get their initialiser from the captured locals
                let decl = p.rels.iter().find(|r| r.ds.is_none() && (it.starts_with(&format!("relation {}(", r.name)) || it.starts_with(&format!("lattice {}(", r.name))));
                match decl {
                    Some(r) if !it.contains(" = ") => writeln!(s, "            {} = init_{};", it.trim_end_matches(';'), r.name).unwrap(),
                    _ => writeln!(s, "            {}", it).unwrap(),
                }
            }
            writeln!(s, "         }};").unwrap();
            writeln!(s, "         let w = W(res);").unwrap();
            writeln!(s, "         self.out = vec![").unwrap();
            for r in p.rels.iter() {
                if r.ds.is_some() { writeln!(s, "            vec![],").unwrap(); continue; }
                writeln!(s, "            {{ let v: Vec<Vec<i32>> = {}; v }},", dump_expr(&r.name, r.arity, r.lat.is_some(), par).replace("self.0.", "w.0.")).unwrap();
            }
            writeln!(s, "         ];").unwrap();
            writeln!(s, "      }}").unwrap();
            writeln!(s, "      fn dump(&self, rel: usize) -> Vec<Vec<i32>> {{ self.out[rel].clone() }}").unwrap();
            writeln!(s, "   }}").unwrap();
            writeln!(s, "   pub fn make() -> Box<dyn prog::harness::Instance> {{ Box::new(I {{ inputs: vec![vec![]; {}], out: vec![vec![]; {}] }}) }}", p.rels.len(), p.rels.len()).unwrap();
        }
    }
    writeln!(s, "}}").unwrap();
    s
}

/// applies the packaging transformations to the printed items; may emit an `ascent_source!` block in front
fn prep_items(v: &Variant, items: &[String], modname: &str, s: &mut String) -> Vec<String> {
    let p = &v.prog;
    let mut items: Vec<String> = items.to_vec();
    if v.generic { for it in items.iter_mut().take(p.rels.len()) { *it = it.replace("i32", "T"); } }
    if v.flags.iter().any(|f| f == "init-tls") {
        let par = v.is_par();
        for (i, r) in p.rels.iter().enumerate() {
            if r.ds.is_some() { continue; }
            let conv = format!("vfn::init_inputs({}).iter().map(|t| {}).collect()", i, tuple_expr(r.arity, r.lat.is_some(), par));
            items[i] = format!("{} = {};", items[i].trim_end_matches(';'), conv);
        }
    }
    if v.flags.iter().any(|f| f == "redecl") {
        // every relation is declared a first time with another initialiser: the later declaration wins
        let mut first: Vec<String> = vec![];
        for (i, r) in p.rels.iter().enumerate() {
            if r.ds.is_some() { continue; }
            let decl = items[i].split(" = ").next().unwrap().trim_end_matches(';').to_string();
            let bogus = if r.lat.is_some() { "Default::default()".to_string() } else { format!("vec![{}]", if r.arity == 1 { "(7,)".to_string() } else { format!("({})", vec!["7"; r.arity].join(", ")) }) };
            first.push(format!("{} = {};", decl, bogus));
        }
        let mut all = first; all.extend(items); items = all;
    }
    if let Some((i, j)) = v.include_block {
        let (i, j) = (i.min(items.len()), j.min(items.len()));
        let blk = format!("blk_{}", modname);
        writeln!(s, "   pub mod src {{ ::ascent::ascent_source! {{ {}:", blk).unwrap();
        for it in &items[i..j] { writeln!(s, "      {}", it).unwrap(); }
        writeln!(s, "   }} }}").unwrap();
        let mut out: Vec<String> = items[..i].to_vec();
        out.push(format!("include_source!(src::{});", blk));
        out.extend(items[j..].iter().cloned());
        return out;
    }
    items
}

fn write_if_changed(path: &Path, content: &str) -> bool {
    if let Ok(old) = std::fs::read_to_string(path) { if old == content { return false; } }
    std::fs::create_dir_all(path.parent().unwrap()).unwrap();
    std::fs::write(path, content).unwrap();
    true
}

/// generates `<out>/<family>_<tier>/` : a workspace of `nshards` binary crates; returns (units, variants)
pub fn generate(family: &str, tier: &str, units: &[Unit], nshards: usize, out: &Path, engines_dir: &str, byods: bool) -> (usize, usize) {
    let ascent_features = if family == "packseg" { "\"verif-hooks\", \"segment-codegen\"" } else { "\"verif-hooks\"" };
    let dir = out.join(format!("{}_{}", family, tier));
    let mut members = vec![];
    let mut nvariants = 0;
    for shard in 0..nshards {
        let cname = format!("g_{}_{}_s{:02}", family, tier, shard);
        members.push(cname.clone());
        let mut src = String::new();
        writeln!(src, "// generated by pgen: family {} tier {} shard {}/{}", family, tier, shard, nshards).unwrap();
        let mut table = String::new();
        for (ui, u) in units.iter().enumerate() {
            if ui % nshards != shard { continue; }
            for (vi, v) in u.variants.iter().enumerate() {
                let name = format!("u{}_v{}", ui, vi);
                src.push_str(&variant_module(&name, v));
                let h = text_hash(&variant_items(v).join("\n"));
                writeln!(table, "   prog::harness::Entry {{ unit: {}, variant: {}, hash: {}u64, make: {}::make }},", ui, vi, h, name).unwrap();
                nvariants += 1;
            }
        }
        writeln!(src, "static TABLE: &[prog::harness::Entry] = &[\n{}];", table).unwrap();
        writeln!(src, "fn main() {{ prog::harness::main({:?}, {:?}, {}, {}, TABLE) }}", family, tier, shard, nshards).unwrap();
        write_if_changed(&dir.join(&cname).join("src/main.rs"), &src);
        let byods_dep = if byods { "ascent-byods-rels = { path = \"/repo/byods/ascent-byods-rels\", features = [\"verif-hooks\"] }\n" } else { "" };
        let cargo = format!("[package]\nname = \"{}\"\nversion = \"0.1.0\"\nedition = \"2021\"\n\n[dependencies]\nprog = {{ path = \"{}/prog\", features = [\"hooks\"] }}\nascent = {{ path = \"/repo/ascent\", features = [{}] }}\n{}", cname, engines_dir, ascent_features, byods_dep);
        write_if_changed(&dir.join(&cname).join("Cargo.toml"), &cargo);
    }
    let ws = format!("[workspace]\nmembers = [{}]\nresolver = \"2\"\n\n[profile.release]\nopt-level = 0\ndebug = false\ncodegen-units = 8\nincremental = false\n\n[profile.release.package.prog]\nopt-level = 2\n[profile.release.package.ascent]\nopt-level = 2\n",
        members.iter().map(|m| format!("\"{}\"", m)).collect::<Vec<_>>().join(", "));
    write_if_changed(&dir.join("Cargo.toml"), &ws);
    // a lock file consistent with the engines workspace
    let lock = std::fs::read_to_string(format!("{}/Cargo.lock", engines_dir)).unwrap_or_default();
    if !dir.join("Cargo.lock").exists() { std::fs::write(dir.join("Cargo.lock"), lock).unwrap(); }
    (units.len(), nvariants)
}

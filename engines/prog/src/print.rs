//! AST -> Ascent surface syntax. The printer owns the `*x` / value distinctions through a fixed
//! menu of vetted expression forms (DESIGN.md 10a).
use crate::ast::*;
use std::collections::HashMap;

#[derive(Clone, Copy, PartialEq, Debug)]
pub enum Kind { Ref, Val, Usize, F64, LatRef }

#[derive(Clone)]
pub struct Names {
    pub vars: HashMap<Var, String>,
    pub rels: Vec<String>,
}
impl Names {
    pub fn default_for(p: &Prog) -> Names { Names { vars: HashMap::new(), rels: p.rels.iter().map(|r| r.name.clone()).collect() } }
    pub fn var(&self, v: Var) -> String {
        if v >= PARAM_BASE { return format!("$p{}", v - PARAM_BASE); }
        self.vars.get(&v).cloned().unwrap_or_else(|| format!("x{}", v))
    }
}

pub struct Printer<'a> { pub p: &'a Prog, pub names: Names, pub in_macro: bool, /// constants in aggregate / negation arguments are printed as named constants (`KONST1`) of the enclosing module
    pub named_consts: bool }

type Kinds = HashMap<Var, Kind>;

impl<'a> Printer<'a> {
    pub fn new(p: &'a Prog) -> Self { Printer { p, names: Names::default_for(p), in_macro: false, named_consts: false } }

    fn kind(&self, k: &Kinds, v: Var) -> Kind {
        if v >= PARAM_BASE { return Kind::Ref; }
        *k.get(&v).unwrap_or_else(|| panic!("printer: variable x{} used before it is bound", v))
    }

    /// i32-valued Rust expression
    pub fn expr(&self, e: &Expr, k: &Kinds) -> String {
        match e {
            Expr::Var(v) => match self.kind(k, *v) {
                Kind::Ref => format!("*{}", self.names.var(*v)),
                Kind::Val => self.names.var(*v),
                Kind::Usize => format!("({} as i32)", self.names.var(*v)),
                Kind::F64 => format!("(({} * 60.0).round() as i32)", self.names.var(*v)),
                Kind::LatRef => panic!("lattice variable in integer expression"),
            },
            Expr::Const(c) => format!("{}", c),
            Expr::Succ(a) => format!("(({} + 1) % {})", self.expr(a, k), self.p.n),
            Expr::Min(a, b) => format!("std::cmp::min({}, {})", self.expr(a, k), self.expr(b, k)),
        }
    }

    fn arg(&self, a: &Arg, k: &Kinds) -> String {
        match a {
            Arg::Var(v) => self.names.var(*v),
            Arg::Wild => "_".into(),
            Arg::Expr(e) => self.expr(e, k),
            Arg::PatBind(v) => format!("?{}", self.names.var(*v)),
            Arg::PatConst(c) => format!("?{}", c),
            Arg::PatLat(v) => format!("?{}", self.names.var(*v)),
        }
    }

    fn lat_ty(&self, rel: usize) -> &LatTy { self.p.rels[rel].lat.as_ref().expect("lattice relation") }

    pub fn cond(&self, c: &Cond, k: &mut Kinds) -> String {
        match c {
            Cond::Ne(a, b) => format!("if {} != {}", self.expr(a, k), self.expr(b, k)),
            Cond::Lt(a, b) => format!("if {} < {}", self.expr(a, k), self.expr(b, k)),
            Cond::Eq(a, b) => format!("if {} == {}", self.expr(a, k), self.expr(b, k)),
            Cond::Let(v, e) => { let s = format!("let {} = {}", self.names.var(*v), self.expr(e, k)); k.insert(*v, Kind::Val); s }
            Cond::IfLetHalf(v, e) => { let s = format!("if let Some({}) = vfn::half({})", self.names.var(*v), self.expr(e, k)); k.insert(*v, Kind::Val); s }
            Cond::LatAbove(l, e) => format!("if vfn::lat_above({}, {})", self.names.var(*l), self.expr(e, k)),
            Cond::IfLetConst(v, c) => format!("if let {} = {}", c, self.names.var(*v)),
            Cond::IfLetBind(n, v) => { let s = format!("if let {} = {}", self.names.var(*n), self.names.var(*v)); k.insert(*n, self.kind(k, *v)); s }
        }
    }

    fn bind_atom_vars(&self, a: &Atom, k: &mut Kinds) {
        let is_lat = self.p.rels[a.rel].lat.is_some();
        let n = a.args.len();
        for (i, arg) in a.args.iter().enumerate() {
            match arg {
                Arg::Var(v) | Arg::PatBind(v) => {
                    if *v < PARAM_BASE && !k.contains_key(v) {
                        k.insert(*v, if is_lat && i == n - 1 { Kind::LatRef } else { Kind::Ref });
                    }
                }
                _ => {}
            }
        }
    }

    pub fn atom(&self, a: &Atom, k: &mut Kinds) -> String {
        // arguments are printed left to right; an expression argument may mention variables
        // bound earlier in the same clause
        let mut parts = vec![];
        let is_lat = self.p.rels[a.rel].lat.is_some();
        let n = a.args.len();
        for (i, arg) in a.args.iter().enumerate() {
            parts.push(self.arg(arg, k));
            if let Arg::Var(v) | Arg::PatBind(v) = arg {
                if *v < PARAM_BASE && !k.contains_key(v) { k.insert(*v, if is_lat && i == n - 1 { Kind::LatRef } else { Kind::Ref }); }
            }
        }
        let mut s = format!("{}({})", self.names.rels[a.rel], parts.join(", "));
        for c in &a.conds { s.push(' '); s.push_str(&self.cond(c, k)); }
        s
    }

    fn mac_args(&self, args: &[MacArg], k: &Kinds) -> String {
        args.iter().map(|a| match a {
            MacArg::Ident(v) => self.names.var(*v),
            // an expression argument that is a bare, not yet bound identifier gets bound by the macro's clause
            MacArg::Expr(Expr::Var(v)) if *v < PARAM_BASE && !k.contains_key(v) => self.names.var(*v),
            MacArg::Expr(e) => self.expr(e, k),
        }).collect::<Vec<_>>().join(", ")
    }

    pub fn body_item(&self, b: &BodyItem, k: &mut Kinds) -> String {
        match b {
            BodyItem::Atom(a) => self.atom(a, k),
            BodyItem::Cond(c) => self.cond(c, k),
            BodyItem::Gen(Gen::Range(v)) => { k.insert(*v, Kind::Val); format!("for {} in 0..{}", self.names.var(*v), self.p.n) }
            BodyItem::Gen(Gen::Two(v, a, b)) => { let s = format!("for {} in [{}, {}]", self.names.var(*v), self.expr(a, k), self.expr(b, k)); k.insert(*v, Kind::Val); s }
            BodyItem::Agg { res, f, bound, rel, args } => {
                let mut k2 = k.clone();
                if let Some(b) = bound { k2.insert(*b, Kind::Ref); }
                let args_s: Vec<String> = args.iter().map(|a| match a { Arg::Var(v) => self.names.var(*v), Arg::Expr(Expr::Const(c)) if self.named_consts => format!("KONST{}", c), other => self.arg(other, &k2) }).collect();
                let (fname, kind) = match f {
                    AggFn::Count => ("::ascent::aggregators::count".to_string(), Kind::Usize),
                    AggFn::Sum => ("::ascent::aggregators::sum".to_string(), Kind::Val),
                    AggFn::Min => ("::ascent::aggregators::min".to_string(), Kind::Val),
                    AggFn::Max => ("::ascent::aggregators::max".to_string(), Kind::Val),
                    AggFn::Mean => ("::ascent::aggregators::mean".to_string(), Kind::F64),
                    AggFn::Percentile50 => ("(::ascent::aggregators::percentile(50.0))".to_string(), Kind::Val),
                    AggFn::MinMax => ("vfn::agg_minmax".to_string(), Kind::Val),
                    AggFn::Not => ("::ascent::aggregators::not".to_string(), Kind::Val),
                };
                if *f == AggFn::Not {
                    return format!("agg () = {}() in {}({})", fname, self.names.rels[*rel], args_s.join(", "));
                }
                let b = bound.map(|b| self.names.var(b)).unwrap_or_default();
                let s = format!("agg {} = {}({}) in {}({})", self.names.var(*res), fname, b, self.names.rels[*rel], args_s.join(", "));
                k.insert(*res, kind);
                s
            }
            BodyItem::Neg { rel, args } => {
                let args_s: Vec<String> = args.iter().map(|a| match a { Arg::Expr(Expr::Const(c)) if self.named_consts => format!("KONST{}", c), other => self.arg(other, k) }).collect();
                format!("!{}({})", self.names.rels[*rel], args_s.join(", "))
            }
            BodyItem::Disj(alts) => {
                let mut outs = vec![];
                let mut merged = k.clone();
                for alt in alts {
                    let mut k2 = k.clone();
                    let items: Vec<String> = alt.iter().map(|bi| self.body_item(bi, &mut k2)).collect();
                    outs.push(items.join(", "));
                    for (v, kd) in k2 { merged.entry(v).or_insert(kd); }
                }
                *k = merged;
                format!("({})", outs.join(" | "))
            }
            BodyItem::Call { mac, args } => {
                // identifiers passed to a macro may get bound by it: as clause variables
                let s = format!("{}!({})", self.p.macros[*mac].name, self.mac_args(args, k));
                for a in args { if let MacArg::Ident(v) | MacArg::Expr(Expr::Var(v)) = a { if *v < PARAM_BASE { k.entry(*v).or_insert(Kind::Ref); } } }
                s
            }
        }
    }

    fn harg(&self, rel: usize, h: &HArg, k: &Kinds) -> String {
        match h {
            HArg::E(Expr::Var(v)) if matches!(self.kind(k, *v), Kind::Ref | Kind::Val) => self.names.var(*v),
            HArg::E(e) => self.expr(e, k),
            HArg::LatMk(e) => { let _ = self.lat_ty(rel); format!("vfn::lat_mk({})", self.expr(e, k)) }
            HArg::LatStep(l, e) => format!("vfn::lat_step({}, {})", self.names.var(*l), self.expr(e, k)),
            HArg::LatVar(l) => format!("{}.clone()", self.names.var(*l)),
        }
    }

    pub fn head(&self, h: &Head, k: &Kinds) -> String {
        let args: Vec<String> = h.args.iter().map(|a| self.harg(h.rel, a, k)).collect();
        format!("{}({})", self.names.rels[h.rel], args.join(", "))
    }

    pub fn rule(&self, r: &Rule) -> String {
        let mut k = Kinds::new();
        let body: Vec<String> = r.body.iter().map(|b| self.body_item(b, &mut k)).collect();
        let heads: Vec<String> = r.heads.iter().map(|h| match h {
            HeadItem::H(h) => self.head(h, &k),
            HeadItem::Call { mac, args } => format!("{}!({})", self.p.macros[*mac].name, self.mac_args(args, &k)),
        }).collect();
        if body.is_empty() { format!("{};", heads.join(", ")) } else { format!("{} <-- {};", heads.join(", "), body.join(", ")) }
    }

    pub fn rel_decl(&self, i: usize) -> String {
        let r = &self.p.rels[i];
        let mut cols: Vec<String> = vec!["i32".into(); r.arity];
        let kw = if let Some(t) = &r.lat { cols[r.arity - 1] = lat_rust_ty(t).into(); "lattice" } else { "relation" };
        let ds = match &r.ds { None => "", Some(Ds::Eqrel) => "#[ds(::ascent_byods_rels::eqrel)] ", Some(Ds::Trrel) => "#[ds(::ascent_byods_rels::trrel)] ", Some(Ds::TrrelUf) => "#[ds(::ascent_byods_rels::trrel_uf)] " };
        format!("{}{} {}({});", ds, kw, self.names.rels[i], cols.join(", "))
    }

    pub fn macro_def(&self, m: &MacroDef) -> String {
        let params: Vec<String> = m.params.iter().enumerate().map(|(i, p)| format!("$p{}: {}", i, match p { MacParam::Ident => "ident", MacParam::Expr => "expr" })).collect();
        let mut k = Kinds::new();
        let content = if !m.heads.is_empty() {
            // head macro: parameters are bound at the call site
            m.heads.iter().map(|h| self.head(h, &k)).collect::<Vec<_>>().join(", ")
        } else {
            m.body.iter().map(|b| self.body_item(b, &mut k)).collect::<Vec<_>>().join(", ")
        };
        format!("macro {}({}) {{ {} }}", m.name, params.join(", "), content)
    }

    /// the items of the program in order: declarations, macros, rules
    pub fn items(&self) -> Vec<String> {
        let mut out = vec![];
        for i in 0..self.p.rels.len() { out.push(self.rel_decl(i)); }
        for m in &self.p.macros { out.push(self.macro_def(m)); }
        for r in &self.p.rules { out.push(self.rule(r)); }
        out
    }
    pub fn program_text(&self) -> String { self.items().join("\n   ") }
}

pub fn lat_rust_ty(t: &LatTy) -> &'static str {
    match t {
        LatTy::MaxU32 => "u32",
        LatTy::DualU32 => "::ascent::Dual<u32>",
        LatTy::Bool => "bool",
        LatTy::OptU8 => "Option<u8>",
        LatTy::SetU8 => "::ascent::lattice::set::Set<u8>",
        LatTy::BSet2 => "::ascent::lattice::bounded_set::BoundedSet<2, u8>",
        LatTy::ConstProp => "::ascent::lattice::constant_propagation::ConstPropagation<u8>",
        LatTy::TupleU8 => "(u8, u8)",
    }
}
pub fn lat_tag(t: &LatTy) -> &'static str {
    match t {
        LatTy::MaxU32 => "maxu32", LatTy::DualU32 => "dualu32", LatTy::Bool => "bool", LatTy::OptU8 => "optu8", LatTy::SetU8 => "setu8",
        LatTy::BSet2 => "bset2", LatTy::ConstProp => "constprop", LatTy::TupleU8 => "tupleu8",
    }
}

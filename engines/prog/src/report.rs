//! Same result-file format as vcore::report, serde-free (see mj.rs for why).
use crate::mj::{obj, J};
use std::collections::BTreeMap;

#[derive(Clone, Debug)]
pub struct Violation { pub sig: String, pub desc: String, pub replay: J }

#[derive(Default, Debug)]
pub struct Report {
    pub property: String, pub tier: String, pub part: String,
    pub states: u64, pub transitions: u64, pub executions: u64, pub evaluations: u64, pub nontrivial: u64,
    pub rule: String, pub exhaustive: bool, pub caps_hit: Vec<String>, pub samples: Vec<J>, pub extras: BTreeMap<String, J>,
    pub violations: Vec<Violation>, pub violation_total: u64, pub sig_counts: BTreeMap<String, u64>, pub machinery_errors: Vec<String>,
    pub max_per_sig: usize, pub max_samples: usize,
}

impl Report {
    pub fn new(property: &str, part: &str) -> Report {
        let tier = std::env::var("VERIF_TIER").unwrap_or_else(|_| "quick".into());
        Report { property: property.into(), part: part.into(), tier, exhaustive: true, max_per_sig: 2, max_samples: 6, ..Default::default() }
    }
    pub fn violate(&mut self, sig: impl Into<String>, desc: impl Into<String>, replay: J) {
        let sig = sig.into();
        self.violation_total += 1;
        let c = self.sig_counts.entry(sig.clone()).or_insert(0);
        *c += 1;
        if (*c as usize) <= self.max_per_sig && self.violations.len() < 200 { self.violations.push(Violation { sig, desc: desc.into(), replay }); }
    }
    pub fn sample(&mut self, v: J) { if self.samples.len() < self.max_samples { self.samples.push(v); } }
    pub fn extra(&mut self, k: &str, v: impl Into<J>) { self.extras.insert(k.into(), v.into()); }
    pub fn add_extra(&mut self, k: &str, n: u64) {
        let cur = self.extras.get(k).and_then(|v| v.as_u64()).unwrap_or(0);
        self.extras.insert(k.into(), J::Int((cur + n) as i64));
    }
    pub fn cap(&mut self, what: impl Into<String>) { self.exhaustive = false; self.caps_hit.push(what.into()); }
    pub fn machinery_error(&mut self, what: impl Into<String>) { if self.machinery_errors.len() < 50 { self.machinery_errors.push(what.into()); } }

    pub fn finish(self, start: std::time::Instant) -> i32 {
        let wall = start.elapsed().as_secs_f64();
        let j = obj(vec![
            ("property", self.property.clone().into()), ("tier", self.tier.clone().into()), ("part", self.part.clone().into()),
            ("states", self.states.into()), ("transitions", self.transitions.into()), ("executions", self.executions.into()),
            ("evaluations", self.evaluations.into()), ("nontrivial", self.nontrivial.into()), ("rule", self.rule.clone().into()),
            ("exhaustive", self.exhaustive.into()), ("caps_hit", self.caps_hit.clone().into()), ("samples", J::Arr(self.samples.clone())),
            ("extras", J::Obj(self.extras.clone())),
            ("violations", J::Arr(self.violations.iter().map(|v| obj(vec![("sig", v.sig.clone().into()), ("desc", v.desc.clone().into()), ("replay", v.replay.clone())])).collect())),
            ("violation_total", self.violation_total.into()),
            ("sig_counts", J::Obj(self.sig_counts.iter().map(|(k, v)| (k.clone(), J::Int(*v as i64))).collect())),
            ("machinery_errors", self.machinery_errors.clone().into()), ("wall_s", wall.into()),
        ]);
        let s = j.to_string();
        match std::env::var("VERIF_OUT") { Ok(p) => std::fs::write(&p, s).expect("write report"), Err(_) => println!("{}", s) }
        if !self.machinery_errors.is_empty() { 2 } else if self.violation_total > 0 { 1 } else { 0 }
    }
}

pub fn catch<R>(f: impl FnOnce() -> R) -> Result<R, String> {
    std::panic::catch_unwind(std::panic::AssertUnwindSafe(f)).map_err(|e| {
        if let Some(s) = e.downcast_ref::<&str>() { s.to_string() } else if let Some(s) = e.downcast_ref::<String>() { s.clone() } else { "<non-string panic>".into() }
    })
}
pub fn silence_panics() { std::panic::set_hook(Box::new(|_| {})); }

pub fn panic_sig(msg: &str) -> String {
    let mut out = String::new();
    let mut depth = 0;
    let mut last_hash = false;
    for c in msg.chars() {
        match c {
            '[' | '{' => { depth += 1; }
            ']' | '}' => { if depth > 0 { depth -= 1; } }
            _ if depth > 0 => {}
            d if d.is_ascii_digit() => { if !last_hash { out.push('#'); last_hash = true; } continue; }
            '\n' => out.push(' '),
            _ => out.push(c),
        }
        last_hash = false;
    }
    out.trim().chars().take(60).collect()
}

pub fn replay_arg() -> Option<J> {
    let args: Vec<String> = std::env::args().collect();
    let i = args.iter().position(|a| a == "--replay")?;
    let txt = std::fs::read_to_string(&args[i + 1]).expect("read replay file");
    let v = J::parse(&txt).expect("parse replay file");
    let r = v.get("replay").clone();
    Some(if r.is_null() { v } else { r })
}

//! Minimal JSON value (writer + parser). The generated harness crates must not link serde_json:
//! its `impl PartialEq<Value> for i32` changes type inference inside code emitted by the Ascent
//! macros (`x_.eq(&(x))` for a repeated variable stops compiling), which would make the harness
//! observe a different program than a plain user crate does.
use std::collections::BTreeMap;

#[derive(Clone, Debug, PartialEq)]
pub enum J { Null, Bool(bool), Int(i64), Float(f64), Str(String), Arr(Vec<J>), Obj(BTreeMap<String, J>) }

impl From<&str> for J { fn from(s: &str) -> J { J::Str(s.to_string()) } }
impl From<String> for J { fn from(s: String) -> J { J::Str(s) } }
impl From<&String> for J { fn from(s: &String) -> J { J::Str(s.clone()) } }
impl From<i32> for J { fn from(x: i32) -> J { J::Int(x as i64) } }
impl From<i64> for J { fn from(x: i64) -> J { J::Int(x) } }
impl From<u64> for J { fn from(x: u64) -> J { J::Int(x as i64) } }
impl From<usize> for J { fn from(x: usize) -> J { J::Int(x as i64) } }
impl From<f64> for J { fn from(x: f64) -> J { J::Float(x) } }
impl From<bool> for J { fn from(x: bool) -> J { J::Bool(x) } }
impl<T: Into<J>> From<Vec<T>> for J { fn from(v: Vec<T>) -> J { J::Arr(v.into_iter().map(Into::into).collect()) } }
impl<T: Into<J> + Clone> From<&[T]> for J { fn from(v: &[T]) -> J { J::Arr(v.iter().cloned().map(Into::into).collect()) } }
impl<T: Into<J> + Clone> From<&Vec<T>> for J { fn from(v: &Vec<T>) -> J { J::Arr(v.iter().cloned().map(Into::into).collect()) } }

pub fn obj(items: Vec<(&str, J)>) -> J { J::Obj(items.into_iter().map(|(k, v)| (k.to_string(), v)).collect()) }
pub fn arr(items: Vec<J>) -> J { J::Arr(items) }

static NULL: J = J::Null;
impl J {
    pub fn get(&self, k: &str) -> &J { match self { J::Obj(m) => m.get(k).unwrap_or(&NULL), _ => &NULL } }
    pub fn at(&self, i: usize) -> &J { match self { J::Arr(v) => v.get(i).unwrap_or(&NULL), _ => &NULL } }
    pub fn as_str(&self) -> Option<&str> { if let J::Str(s) = self { Some(s) } else { None } }
    pub fn as_i64(&self) -> Option<i64> { match self { J::Int(i) => Some(*i), J::Float(f) => Some(*f as i64), _ => None } }
    pub fn as_u64(&self) -> Option<u64> { self.as_i64().map(|x| x as u64) }
    pub fn as_array(&self) -> Option<&Vec<J>> { if let J::Arr(v) = self { Some(v) } else { None } }
    pub fn is_null(&self) -> bool { matches!(self, J::Null) }

    pub fn write(&self, out: &mut String) {
        match self {
            J::Null => out.push_str("null"),
            J::Bool(b) => out.push_str(if *b { "true" } else { "false" }),
            J::Int(i) => out.push_str(&i.to_string()),
            J::Float(f) => if f.is_finite() { out.push_str(&format!("{:?}", f)) } else { out.push_str("null") },
            J::Str(s) => {
                out.push('"');
                for c in s.chars() {
                    match c {
                        '"' => out.push_str("\\\""), '\\' => out.push_str("\\\\"), '\n' => out.push_str("\\n"), '\r' => out.push_str("\\r"), '\t' => out.push_str("\\t"),
                        c if (c as u32) < 0x20 => out.push_str(&format!("\\u{:04x}", c as u32)),
                        c => out.push(c),
                    }
                }
                out.push('"');
            }
            J::Arr(v) => { out.push('['); for (i, x) in v.iter().enumerate() { if i > 0 { out.push(','); } x.write(out); } out.push(']'); }
            J::Obj(m) => { out.push('{'); for (i, (k, x)) in m.iter().enumerate() { if i > 0 { out.push(','); } J::Str(k.clone()).write(out); out.push(':'); x.write(out); } out.push('}'); }
        }
    }
    pub fn to_string(&self) -> String { let mut s = String::new(); self.write(&mut s); s }

    pub fn parse(s: &str) -> Result<J, String> {
        let b: Vec<char> = s.chars().collect();
        let mut i = 0;
        let v = parse_val(&b, &mut i)?;
        skip_ws(&b, &mut i);
        if i != b.len() { return Err(format!("trailing characters at {}", i)); }
        Ok(v)
    }
}
fn skip_ws(b: &[char], i: &mut usize) { while *i < b.len() && b[*i].is_whitespace() { *i += 1; } }
fn parse_val(b: &[char], i: &mut usize) -> Result<J, String> {
    skip_ws(b, i);
    if *i >= b.len() { return Err("unexpected end".into()); }
    match b[*i] {
        'n' => { *i += 4; Ok(J::Null) }
        't' => { *i += 4; Ok(J::Bool(true)) }
        'f' => { *i += 5; Ok(J::Bool(false)) }
        '"' => Ok(J::Str(parse_str(b, i)?)),
        '[' => {
            *i += 1; let mut v = vec![];
            loop { skip_ws(b, i); if b[*i] == ']' { *i += 1; break; } v.push(parse_val(b, i)?); skip_ws(b, i); if b[*i] == ',' { *i += 1; } }
            Ok(J::Arr(v))
        }
        '{' => {
            *i += 1; let mut m = BTreeMap::new();
            loop {
                skip_ws(b, i); if b[*i] == '}' { *i += 1; break; }
                let k = parse_str(b, i)?; skip_ws(b, i);
                if b[*i] != ':' { return Err(format!("expected ':' at {}", i)); }
                *i += 1;
                let v = parse_val(b, i)?; m.insert(k, v); skip_ws(b, i);
                if b[*i] == ',' { *i += 1; }
            }
            Ok(J::Obj(m))
        }
        _ => {
            let st = *i;
            while *i < b.len() && (b[*i].is_ascii_digit() || matches!(b[*i], '-' | '+' | '.' | 'e' | 'E')) { *i += 1; }
            let t: String = b[st..*i].iter().collect();
            if let Ok(x) = t.parse::<i64>() { Ok(J::Int(x)) } else { t.parse::<f64>().map(J::Float).map_err(|e| format!("bad number {:?}: {}", t, e)) }
        }
    }
}
fn parse_str(b: &[char], i: &mut usize) -> Result<String, String> {
    if b[*i] != '"' { return Err(format!("expected string at {}", i)); }
    *i += 1;
    let mut s = String::new();
    while *i < b.len() {
        let c = b[*i]; *i += 1;
        match c {
            '"' => return Ok(s),
            '\\' => { let e = b[*i]; *i += 1; match e {
                'n' => s.push('\n'), 'r' => s.push('\r'), 't' => s.push('\t'), 'b' => s.push('\u{8}'), 'f' => s.push('\u{c}'),
                'u' => { let h: String = b[*i..*i + 4].iter().collect(); *i += 4; s.push(char::from_u32(u32::from_str_radix(&h, 16).map_err(|e| e.to_string())?).unwrap_or('?')); }
                other => s.push(other) } }
            c => s.push(c),
        }
    }
    Err("unterminated string".into())
}

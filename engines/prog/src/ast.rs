//! Program AST: programs are generated as data, printed to Ascent surface syntax for the real
//! macros, and interpreted by the naive reference evaluator.

pub type Var = u8; // variable id; printed through a name map

#[derive(Clone, Debug, PartialEq, Eq, Hash, PartialOrd, Ord)]
pub enum LatTy { MaxU32, DualU32, Bool, OptU8, SetU8, BSet2, ConstProp, TupleU8 }

#[derive(Clone, Debug, PartialEq, Eq, Hash, PartialOrd, Ord)]
pub enum Ds { Eqrel, Trrel, TrrelUf }

#[derive(Clone, Debug, PartialEq, Eq, Hash, PartialOrd, Ord)]
pub struct RelDecl {
    pub name: String,
    /// number of columns (for a lattice: including the lattice column)
    pub arity: usize,
    pub lat: Option<LatTy>,
    pub ds: Option<Ds>,
}

/// i32-valued expression
#[derive(Clone, Debug, PartialEq, Eq, Hash, PartialOrd, Ord)]
pub enum Expr {
    Var(Var),
    Const(i32),
    /// (e + 1) % N
    Succ(Box<Expr>),
    /// min(a, b)
    Min(Box<Expr>, Box<Expr>),
}

/// argument of a body atom
#[derive(Clone, Debug, PartialEq, Eq, Hash, PartialOrd, Ord)]
pub enum Arg {
    Var(Var),
    Wild,
    /// non-variable expression argument (constants included)
    Expr(Expr),
    /// `?pattern` argument: PatConst(c) prints `?c`... see print.rs
    PatBind(Var),      // ?x  (identifier pattern: binds like a variable, value kind = reference)
    PatConst(i32),     // ?0
    PatLat(Var),       // ?Dual(l) style destructuring of a lattice column, binds an i32-like view
}

#[derive(Clone, Debug, PartialEq, Eq, Hash, PartialOrd, Ord)]
pub enum Cond {
    Ne(Expr, Expr),
    Lt(Expr, Expr),
    Eq(Expr, Expr),
    Let(Var, Expr),
    /// if let Some(v) = half(e)   — half(e) = Some(e / 2) if e is even
    IfLetHalf(Var, Expr),
    /// upward closed test on a lattice variable: lat_above(l, e)
    LatAbove(Var, Expr),
    /// `if let <c> = <var>` (core form of a `?c` pattern argument)
    IfLetConst(Var, i32),
    /// `if let <new> = <var>` (core form of a `?x` pattern argument)
    IfLetBind(Var, Var),
}

#[derive(Clone, Debug, PartialEq, Eq, Hash, PartialOrd, Ord)]
pub enum Gen {
    /// for v in 0..N
    Range(Var),
    /// for v in [e1, e2]
    Two(Var, Expr, Expr),
}

#[derive(Clone, Debug, PartialEq, Eq, Hash, PartialOrd, Ord)]
pub enum AggFn { Count, Sum, Min, Max, Mean, Percentile50, MinMax /* user aggregator yielding 0..2 values */, Not /* agg () = not() in .. */ }

#[derive(Clone, Debug, PartialEq, Eq, Hash, PartialOrd, Ord)]
pub struct Atom { pub rel: usize, pub args: Vec<Arg>, pub conds: Vec<Cond> }

#[derive(Clone, Debug, PartialEq, Eq, Hash, PartialOrd, Ord)]
pub enum BodyItem {
    Atom(Atom),
    Cond(Cond),
    Gen(Gen),
    /// agg res = f(bound) in rel(args); args are Var (bound earlier, or == bound -> aggregated), Wild, Expr
    Agg { res: Var, f: AggFn, bound: Option<Var>, rel: usize, args: Vec<Arg> },
    Neg { rel: usize, args: Vec<Arg> },
    Disj(Vec<Vec<BodyItem>>),
    /// invocation of macro `mac` with ident / expr arguments
    Call { mac: usize, args: Vec<MacArg> },
}

#[derive(Clone, Debug, PartialEq, Eq, Hash, PartialOrd, Ord)]
pub enum MacArg { Ident(Var), Expr(Expr) }

/// head argument
#[derive(Clone, Debug, PartialEq, Eq, Hash, PartialOrd, Ord)]
pub enum HArg {
    E(Expr),
    /// lattice column built from an i32 expression: lat_mk(e)
    LatMk(Expr),
    /// monotone step of a bound lattice variable: lat_step(l, e)
    LatStep(Var, Expr),
    /// copy of a bound lattice variable
    LatVar(Var),
}

#[derive(Clone, Debug, PartialEq, Eq, Hash, PartialOrd, Ord)]
pub struct Head { pub rel: usize, pub args: Vec<HArg> }

#[derive(Clone, Debug, PartialEq, Eq, Hash, PartialOrd, Ord)]
pub enum HeadItem { H(Head), Call { mac: usize, args: Vec<MacArg> } }

#[derive(Clone, Debug, PartialEq, Eq, Hash, PartialOrd, Ord)]
pub struct Rule { pub heads: Vec<HeadItem>, pub body: Vec<BodyItem> }

#[derive(Clone, Debug, PartialEq, Eq, Hash, PartialOrd, Ord)]
pub enum MacParam { Ident, Expr }

/// macro definition: parameters are variables 200.. (200 + i); locals are ordinary variable ids
#[derive(Clone, Debug, PartialEq, Eq, Hash, PartialOrd, Ord)]
pub struct MacroDef { pub name: String, pub params: Vec<MacParam>, pub body: Vec<BodyItem>, pub heads: Vec<Head> }

#[derive(Clone, Debug, PartialEq, Eq, Hash, Default, PartialOrd, Ord)]
pub struct Prog {
    pub rels: Vec<RelDecl>,
    pub rules: Vec<Rule>,
    pub macros: Vec<MacroDef>,
    /// domain size N: every interpreted function is closed over 0..N
    pub n: i32,
}

pub const PARAM_BASE: Var = 200;

impl Prog {
    pub fn rel(&self, name: &str) -> usize { self.rels.iter().position(|r| r.name == name).expect("relation") }
}

pub fn rel(name: &str, arity: usize) -> RelDecl { RelDecl { name: name.into(), arity, lat: None, ds: None } }
pub fn lat(name: &str, arity: usize, ty: LatTy) -> RelDecl { RelDecl { name: name.into(), arity, lat: Some(ty), ds: None } }
pub fn v(x: Var) -> Arg { Arg::Var(x) }
pub fn c(x: i32) -> Arg { Arg::Expr(Expr::Const(x)) }
pub fn ev(x: Var) -> Expr { Expr::Var(x) }
pub fn atom(rel: usize, args: Vec<Arg>) -> BodyItem { BodyItem::Atom(Atom { rel, args, conds: vec![] }) }
pub fn head(rel: usize, args: Vec<Expr>) -> HeadItem { HeadItem::H(Head { rel, args: args.into_iter().map(HArg::E).collect() }) }
pub fn rule(heads: Vec<HeadItem>, body: Vec<BodyItem>) -> Rule { Rule { heads, body } }

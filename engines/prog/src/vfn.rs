//! Interpreted functions used by generated programs (real Rust, real lattice types), and their
//! code-level twins used by the reference evaluator. `selftest` ties the two together exhaustively.
use crate::ast::LatTy;
use ascent::lattice::bounded_set::BoundedSet;
use ascent::lattice::constant_propagation::ConstPropagation;
use ascent::lattice::set::Set;
use ascent::{Dual, Lattice};
use std::fmt::Debug;
use std::hash::Hash;

pub const CAP: u32 = 7;

pub fn half(e: i32) -> Option<i32> { if e % 2 == 0 { Some(e / 2) } else { None } }

/// user aggregator yielding 0, 1 or 2 values: min and max of the column (once if equal)
pub fn agg_minmax<'a>(inp: impl Iterator<Item = (&'a i32,)>) -> impl Iterator<Item = i32> {
    let v: Vec<i32> = inp.map(|t| *t.0).collect();
    let mn = v.iter().min().cloned();
    let mx = v.iter().max().cloned();
    let mut out = vec![];
    if let Some(a) = mn { out.push(a); }
    if let (Some(a), Some(b)) = (mn, mx) { if a != b { out.push(b); } }
    out.into_iter()
}

thread_local! { static INIT_INPUTS: std::cell::RefCell<Vec<Vec<Vec<i32>>>> = const { std::cell::RefCell::new(Vec::new()) }; }
/// inputs for programs whose relations are declared with an initialiser (`relation r(..) = <expr>`)
pub fn set_init_inputs(v: Vec<Vec<Vec<i32>>>) { INIT_INPUTS.with(|i| *i.borrow_mut() = v) }
pub fn init_inputs(rel: usize) -> Vec<Vec<i32>> { INIT_INPUTS.with(|i| i.borrow().get(rel).cloned().unwrap_or_default()) }

// ------------------------------------------------------------------------------------------------
// injective renamings of the constant domain into other column types (C06)
/// a user type whose Hash collides for all values
#[derive(Clone, PartialEq, Eq, Debug)]
pub struct Sym(pub i32);
impl Hash for Sym { fn hash<H: std::hash::Hasher>(&self, state: &mut H) { state.write_u8(0) } }
pub trait ConstDomain: Clone + Eq + Hash + Send + Sync { fn embed(x: i32) -> Self; fn unembed(&self) -> i32; }
impl ConstDomain for i64 { fn embed(x: i32) -> i64 { x as i64 * 4_000_000_007 - 17 } fn unembed(&self) -> i32 { ((*self + 17) / 4_000_000_007) as i32 } }
impl ConstDomain for String { fn embed(x: i32) -> String { format!("const-{}-{}", 9 - x, "x".repeat(x as usize % 3)) } fn unembed(&self) -> i32 { 9 - self.split('-').nth(1).unwrap().parse::<i32>().unwrap() } }
impl ConstDomain for Sym { fn embed(x: i32) -> Sym { Sym(x * 7 + 1) } fn unembed(&self) -> i32 { (self.0 - 1) / 7 } }
fn permute(perm: usize, x: i32, n: i32) -> i32 { if perm == 0 { x } else { (n - 1 - x).rem_euclid(n.max(1)) } }
pub fn conv<T: ConstDomain>(perm: usize, x: i32) -> T { T::embed(permute(perm, x, 2)) }
pub fn unconv<T: ConstDomain>(perm: usize, t: &T) -> i32 { permute(perm, t.unembed(), 2) }

pub trait VLat: Lattice + Clone + Eq + Hash + Debug + Send + Sync {
    const TY: LatTy;
    fn mk(w: i32) -> Self;
    /// monotone in self
    fn step(&self, w: i32) -> Self;
    /// upward closed in self
    fn above(&self, w: i32) -> bool;
    fn enc(&self) -> i32;
    fn dec(c: i32) -> Self;
}
pub fn lat_mk<L: VLat>(w: i32) -> L { L::mk(w) }
pub fn lat_step<L: VLat>(l: &L, w: i32) -> L { l.step(w) }
pub fn lat_above<L: VLat>(l: &L, w: i32) -> bool { l.above(w) }

fn capadd(a: u32, w: i32) -> u32 { (a + w.max(0) as u32).min(CAP) }

impl VLat for u32 {
    const TY: LatTy = LatTy::MaxU32;
    fn mk(w: i32) -> Self { w.max(0) as u32 }
    fn step(&self, w: i32) -> Self { capadd(*self, w) }
    fn above(&self, w: i32) -> bool { *self as i64 >= w as i64 }
    fn enc(&self) -> i32 { *self as i32 }
    fn dec(c: i32) -> Self { c as u32 }
}
impl VLat for Dual<u32> {
    const TY: LatTy = LatTy::DualU32;
    fn mk(w: i32) -> Self { Dual(w.max(0) as u32) }
    fn step(&self, w: i32) -> Self { Dual(capadd(self.0, w)) }
    fn above(&self, w: i32) -> bool { (self.0 as i64) <= w as i64 }
    fn enc(&self) -> i32 { self.0 as i32 }
    fn dec(c: i32) -> Self { Dual(c as u32) }
}
impl VLat for bool {
    const TY: LatTy = LatTy::Bool;
    fn mk(w: i32) -> Self { w != 0 }
    fn step(&self, w: i32) -> Self { *self || w == 1 }
    fn above(&self, w: i32) -> bool { *self || w == 0 }
    fn enc(&self) -> i32 { *self as i32 }
    fn dec(c: i32) -> Self { c != 0 }
}
impl VLat for Option<u8> {
    const TY: LatTy = LatTy::OptU8;
    fn mk(w: i32) -> Self { if w <= 0 { None } else { Some(w as u8) } }
    fn step(&self, w: i32) -> Self { self.map(|x| capadd(x as u32, w) as u8) }
    fn above(&self, w: i32) -> bool { matches!(self, Some(x) if *x as i32 >= w) }
    fn enc(&self) -> i32 { match self { None => 0, Some(x) => 1 + *x as i32 } }
    fn dec(c: i32) -> Self { if c == 0 { None } else { Some((c - 1) as u8) } }
}
fn set_step(bits: u32, w: i32) -> u32 {
    let mut out = bits | (1 << (w.rem_euclid(4)));
    for x in 0..8 { if bits & (1 << x) != 0 { out |= 1 << ((x + w).rem_euclid(4)); } }
    out
}
fn set_bits(s: &Set<u8>) -> u32 { s.0.iter().fold(0, |a, x| a | (1 << *x)) }
fn bits_set(b: u32) -> Set<u8> { Set((0..8u8).filter(|x| b & (1 << x) != 0).collect()) }
impl VLat for Set<u8> {
    const TY: LatTy = LatTy::SetU8;
    fn mk(w: i32) -> Self { Set::singleton(w.rem_euclid(4) as u8) }
    fn step(&self, w: i32) -> Self { bits_set(set_step(set_bits(self), w)) }
    fn above(&self, w: i32) -> bool { self.0.contains(&(w.rem_euclid(4) as u8)) }
    fn enc(&self) -> i32 { set_bits(self) as i32 }
    fn dec(c: i32) -> Self { bits_set(c as u32) }
}
pub const BSET_TOP: i32 = 256;
impl VLat for BoundedSet<2, u8> {
    const TY: LatTy = LatTy::BSet2;
    fn mk(w: i32) -> Self { BoundedSet::singleton(w.rem_euclid(4) as u8) }
    fn step(&self, w: i32) -> Self { if self.is_top() { BoundedSet::TOP } else { BoundedSet::from_set(bits_set(set_step(self.enc() as u32, w))) } }
    fn above(&self, w: i32) -> bool { self.contains(&(w.rem_euclid(4) as u8)) }
    fn enc(&self) -> i32 { if self.is_top() { BSET_TOP } else { (0..8u8).fold(0, |a, x| if self.contains(&x) { a | (1 << x) } else { a }) } }
    fn dec(c: i32) -> Self { if c == BSET_TOP { BoundedSet::TOP } else { BoundedSet::from_set(bits_set(c as u32)) } }
}
pub const CP_TOP: i32 = 100;
impl VLat for ConstPropagation<u8> {
    const TY: LatTy = LatTy::ConstProp;
    fn mk(w: i32) -> Self { ConstPropagation::Constant(w.rem_euclid(4) as u8) }
    fn step(&self, w: i32) -> Self {
        match self { ConstPropagation::Bottom => ConstPropagation::Bottom, ConstPropagation::Top => ConstPropagation::Top,
            ConstPropagation::Constant(c) => ConstPropagation::Constant(((*c as i32 + w).rem_euclid(4)) as u8) }
    }
    fn above(&self, w: i32) -> bool { match self { ConstPropagation::Top => true, ConstPropagation::Constant(c) => *c as i32 == w.rem_euclid(4), ConstPropagation::Bottom => false } }
    fn enc(&self) -> i32 { match self { ConstPropagation::Bottom => 0, ConstPropagation::Constant(c) => 1 + *c as i32, ConstPropagation::Top => CP_TOP } }
    fn dec(c: i32) -> Self { if c == 0 { ConstPropagation::Bottom } else if c == CP_TOP { ConstPropagation::Top } else { ConstPropagation::Constant((c - 1) as u8) } }
}
impl VLat for (u8, u8) {
    const TY: LatTy = LatTy::TupleU8;
    fn mk(w: i32) -> Self { (w.max(0) as u8, w.max(0) as u8) }
    fn step(&self, w: i32) -> Self { (self.0, capadd(self.1 as u32, w) as u8) }
    fn above(&self, w: i32) -> bool { self.0 as i32 >= w }
    fn enc(&self) -> i32 { self.0 as i32 * 16 + self.1 as i32 }
    fn dec(c: i32) -> Self { ((c / 16) as u8, (c % 16) as u8) }
}

// ---------------------------------------------------------------- code-level twins (reference side)
pub mod code {
    use super::*;
    pub fn mk(t: &LatTy, w: i32) -> i32 {
        let w0 = w.max(0);
        match t {
            LatTy::MaxU32 | LatTy::DualU32 => w0,
            LatTy::Bool => (w != 0) as i32,
            LatTy::OptU8 => if w <= 0 { 0 } else { 1 + w },
            LatTy::SetU8 | LatTy::BSet2 => 1 << w.rem_euclid(4),
            LatTy::ConstProp => 1 + w.rem_euclid(4),
            LatTy::TupleU8 => w0 * 16 + w0,
        }
    }
    fn cadd(a: i32, w: i32) -> i32 { (a + w.max(0)).min(CAP as i32) }
    pub fn step(t: &LatTy, c: i32, w: i32) -> i32 {
        match t {
            LatTy::MaxU32 | LatTy::DualU32 => cadd(c, w),
            LatTy::Bool => (c != 0 || w == 1) as i32,
            LatTy::OptU8 => if c == 0 { 0 } else { 1 + cadd(c - 1, w) },
            LatTy::SetU8 => set_step(c as u32, w) as i32,
            LatTy::BSet2 => if c == BSET_TOP { BSET_TOP } else { let s = set_step(c as u32, w); if s.count_ones() > 2 { BSET_TOP } else { s as i32 } },
            LatTy::ConstProp => if c == 0 || c == CP_TOP { c } else { 1 + (c - 1 + w).rem_euclid(4) },
            LatTy::TupleU8 => (c / 16) * 16 + cadd(c % 16, w),
        }
    }
    pub fn above(t: &LatTy, c: i32, w: i32) -> bool {
        match t {
            LatTy::MaxU32 => c >= w,
            LatTy::DualU32 => c <= w,
            LatTy::Bool => c != 0 || w == 0,
            LatTy::OptU8 => c != 0 && c - 1 >= w,
            LatTy::SetU8 => c & (1 << w.rem_euclid(4)) != 0,
            LatTy::BSet2 => c == BSET_TOP || c & (1 << w.rem_euclid(4)) != 0,
            LatTy::ConstProp => c == CP_TOP || (c != 0 && c - 1 == w.rem_euclid(4)),
            LatTy::TupleU8 => c / 16 >= w,
        }
    }
    /// least upper bound on codes, written from the definition of each lattice
    pub fn join(t: &LatTy, a: i32, b: i32) -> i32 {
        match t {
            LatTy::MaxU32 | LatTy::Bool | LatTy::OptU8 | LatTy::TupleU8 => a.max(b),
            LatTy::DualU32 => a.min(b),
            LatTy::SetU8 => a | b,
            LatTy::BSet2 => if a == BSET_TOP || b == BSET_TOP || ((a | b) as u32).count_ones() > 2 { BSET_TOP } else { a | b },
            LatTy::ConstProp => if a == 0 { b } else if b == 0 { a } else if a == b { a } else { CP_TOP },
        }
    }
    /// a <= b in the lattice order
    pub fn leq(t: &LatTy, a: i32, b: i32) -> bool { join(t, a, b) == b }
}

/// exhaustive agreement of the real functions with their code twins over the small domain
pub fn selftest() -> Result<u64, String> {
    fn one<L: VLat>(n: &mut u64) -> Result<(), String> {
        // carrier: everything reachable from mk(w) by step / join within a few rounds
        let mut carrier: Vec<L> = (0..4).map(L::mk).collect();
        for _ in 0..3 {
            let cur = carrier.clone();
            for a in &cur { for w in 0..4 { let s = a.step(w); if !carrier.contains(&s) { carrier.push(s); } }
                for b in &cur { let j = a.clone().join(b.clone()); if !carrier.contains(&j) { carrier.push(j); } } }
            if carrier.len() > 60 { break; }
        }
        for a in &carrier {
            *n += 1;
            if L::dec(a.enc()) != *a { return Err(format!("{:?}: dec(enc({:?})) differs", L::TY, a)); }
            for w in 0..4 {
                if w < 4 && L::mk(w).enc() != code::mk(&L::TY, w) { return Err(format!("{:?}: mk({})", L::TY, w)); }
                if a.step(w).enc() != code::step(&L::TY, a.enc(), w) { return Err(format!("{:?}: step({:?},{})", L::TY, a, w)); }
                if a.above(w) != code::above(&L::TY, a.enc(), w) { return Err(format!("{:?}: above({:?},{})", L::TY, a, w)); }
            }
            for b in &carrier {
                let j = a.clone().join(b.clone());
                if j.enc() != code::join(&L::TY, a.enc(), b.enc()) { return Err(format!("{:?}: join({:?},{:?}) = {:?}", L::TY, a, b, j)); }
                // monotonicity of step and upward closure of above (the premises of C03's "monotone use")
                if a.partial_cmp(b).map_or(false, |o| o != std::cmp::Ordering::Greater) {
                    for w in 0..4 {
                        let (sa, sb) = (a.step(w), b.step(w));
                        if !sa.partial_cmp(&sb).map_or(false, |o| o != std::cmp::Ordering::Greater) { return Err(format!("{:?}: step not monotone at {:?} <= {:?}, w={}", L::TY, a, b, w)); }
                        if a.above(w) && !b.above(w) { return Err(format!("{:?}: above not upward closed at {:?} <= {:?}, w={}", L::TY, a, b, w)); }
                    }
                }
            }
        }
        Ok(())
    }
    let mut n = 0;
    one::<u32>(&mut n)?; one::<Dual<u32>>(&mut n)?; one::<bool>(&mut n)?; one::<Option<u8>>(&mut n)?; one::<Set<u8>>(&mut n)?;
    one::<BoundedSet<2, u8>>(&mut n)?; one::<ConstPropagation<u8>>(&mut n)?; one::<(u8, u8)>(&mut n)?;
    Ok(n)
}

//! The harness's own expander: the documented core meaning of every surface form (C07) and of
//! in-program macros (C08). It is the semantics written down once; the compiled sugared program, the
//! compiled hand expansion and the reference evaluator must all agree.
use crate::ast::*;
use std::collections::HashSet;

fn max_var(items: &[BodyItem], m: &mut Var) {
    fn arg(a: &Arg, m: &mut Var) { match a { Arg::Var(v) | Arg::PatBind(v) | Arg::PatLat(v) => if *v < PARAM_BASE { *m = (*m).max(*v) }, Arg::Expr(e) => expr(e, m), _ => {} } }
    fn expr(e: &Expr, m: &mut Var) { match e { Expr::Var(v) => if *v < PARAM_BASE { *m = (*m).max(*v) }, Expr::Succ(a) => expr(a, m), Expr::Min(a, b) => { expr(a, m); expr(b, m) }, _ => {} } }
    fn cond(c: &Cond, m: &mut Var) { match c { Cond::Ne(a, b) | Cond::Lt(a, b) | Cond::Eq(a, b) => { expr(a, m); expr(b, m) }, Cond::Let(v, e) | Cond::IfLetHalf(v, e) | Cond::LatAbove(v, e) => { *m = (*m).max(*v); expr(e, m) }, Cond::IfLetConst(v, _) => *m = (*m).max(*v), Cond::IfLetBind(a, b) => *m = (*m).max(*a).max(*b) } }
    for b in items {
        match b {
            BodyItem::Atom(a) => { for x in &a.args { arg(x, m); } for c in &a.conds { cond(c, m); } }
            BodyItem::Cond(c) => cond(c, m),
            BodyItem::Gen(Gen::Range(v)) => *m = (*m).max(*v),
            BodyItem::Gen(Gen::Two(v, a, b)) => { *m = (*m).max(*v); expr(a, m); expr(b, m) }
            BodyItem::Agg { res, bound, args, .. } => { *m = (*m).max(*res); if let Some(b) = bound { *m = (*m).max(*b); } for x in args { arg(x, m); } }
            BodyItem::Neg { args, .. } => for x in args { arg(x, m); },
            BodyItem::Disj(alts) => for a in alts { max_var(a, m); },
            BodyItem::Call { args, .. } => for a in args { match a { MacArg::Ident(v) => if *v < PARAM_BASE { *m = (*m).max(*v) }, MacArg::Expr(e) => expr(e, m) } },
        }
    }
}

fn expr_vars(e: &Expr, out: &mut Vec<Var>) { match e { Expr::Var(v) => out.push(*v), Expr::Succ(a) => expr_vars(a, out), Expr::Min(a, b) => { expr_vars(a, out); expr_vars(b, out) }, _ => {} } }

/// disjunctions: the union of the rules obtained by picking one disjunct from each disjunction
fn disj_product(items: &[BodyItem]) -> Vec<Vec<BodyItem>> {
    let mut res: Vec<Vec<BodyItem>> = vec![vec![]];
    for it in items {
        let alts: Vec<Vec<BodyItem>> = match it {
            BodyItem::Disj(alts) => alts.iter().flat_map(|a| disj_product(a)).collect(),
            other => vec![vec![other.clone()]],
        };
        let mut next = vec![];
        for r in &res { for a in &alts { let mut x = r.clone(); x.extend(a.iter().cloned()); next.push(x); } }
        res = next;
    }
    res
}

/// core form of one conjunctive body
fn desugar_body(body: Vec<BodyItem>, eq_bound: bool) -> Vec<BodyItem> {
    let mut fresh: Var = 0;
    max_var(&body, &mut fresh);
    fresh = fresh.max(99) + 1;
    let mut bound: HashSet<Var> = HashSet::new();
    let mut out = vec![];
    for it in body {
        match it {
            BodyItem::Atom(a) => {
                let mut here: HashSet<Var> = HashSet::new(); // variables bound by this clause
                let mut args = vec![];
                // (one list, in argument order: a test may mention a variable bound by an earlier pattern of the clause)
                let mut eq_conds: Vec<Cond> = vec![];
                for arg in a.args {
                    match arg {
                        Arg::Var(v) => {
                            if here.contains(&v) {
                                // repeated variable inside one clause: fresh variable + equality test
                                let g = fresh; fresh += 1;
                                eq_conds.push(Cond::Eq(Expr::Var(g), Expr::Var(v)));
                                args.push(Arg::Var(g));
                            } else if eq_bound && bound.contains(&v) {
                                // variable bound by an earlier item: fresh variable + equality test against the column
                                let g = fresh; fresh += 1;
                                eq_conds.push(Cond::Eq(Expr::Var(g), Expr::Var(v)));
                                args.push(Arg::Var(g));
                            } else {
                                if !bound.contains(&v) { here.insert(v); }
                                args.push(Arg::Var(v));
                            }
                        }
                        Arg::Wild => { let g = fresh; fresh += 1; args.push(Arg::Var(g)); }
                        Arg::Expr(e) => {
                            // non-variable argument: fresh variable + equality test against the column
                            let g = fresh; fresh += 1;
                            eq_conds.push(Cond::Eq(Expr::Var(g), e));
                            args.push(Arg::Var(g));
                        }
                        Arg::PatBind(v) | Arg::PatLat(v) => { let g = fresh; fresh += 1; eq_conds.push(Cond::IfLetBind(v, g)); here.insert(v); args.push(Arg::Var(g)); }
                        Arg::PatConst(c) => { let g = fresh; fresh += 1; eq_conds.push(Cond::IfLetConst(g, c)); args.push(Arg::Var(g)); }
                    }
                }
                let mut conds = eq_conds;
                conds.extend(a.conds);
                for c in &conds { if let Cond::Let(v, _) | Cond::IfLetHalf(v, _) | Cond::IfLetBind(v, _) = c { bound.insert(*v); } }
                bound.extend(here);
                out.push(BodyItem::Atom(Atom { rel: a.rel, args, conds }));
            }
            BodyItem::Neg { rel, args } => out.push(BodyItem::Agg { res: fresh_unit(&mut fresh), f: AggFn::Not, bound: None, rel, args }),
            BodyItem::Cond(c) => { if let Cond::Let(v, _) | Cond::IfLetHalf(v, _) | Cond::IfLetBind(v, _) = &c { bound.insert(*v); } out.push(BodyItem::Cond(c)); }
            BodyItem::Gen(g) => { match &g { Gen::Range(v) | Gen::Two(v, _, _) => { bound.insert(*v); } } out.push(BodyItem::Gen(g)); }
            BodyItem::Agg { res, f, bound: b, rel, args } => { bound.insert(res); out.push(BodyItem::Agg { res, f, bound: b, rel, args }); }
            BodyItem::Disj(_) => panic!("desugar_body: disjunction not expanded"),
            BodyItem::Call { .. } => panic!("desugar_body: macro call not expanded"),
        }
    }
    out
}
fn fresh_unit(f: &mut Var) -> Var { let g = *f; *f += 1; g }

/// the documented core expansion of a program without macros
pub fn desugar(p: &Prog) -> Prog { desugar_with(p, false) }
/// as `desugar`, and every clause variable that an earlier body item bound becomes a fresh variable plus
/// an equality test (no clause is joined through an index any more)
pub fn desugar_eq(p: &Prog) -> Prog { desugar_with(p, true) }
fn desugar_with(p: &Prog, eq_bound: bool) -> Prog {
    let mut q = p.clone();
    q.rules = vec![];
    for r in &p.rules {
        for body in disj_product(&r.body) {
            let core = desugar_body(body, eq_bound);
            // a rule with several head clauses is one rule per head clause
            for h in &r.heads { q.rules.push(Rule { heads: vec![h.clone()], body: core.clone() }); }
        }
    }
    q
}

pub fn uses_expr_vars(e: &Expr) -> Vec<Var> { let mut v = vec![]; expr_vars(e, &mut v); v }

// ------------------------------------------------------------------------------------------------ macros (C08)
/// substitution of macro parameters and renaming of macro-bound identifiers for one invocation
struct Subst { params: Vec<MacArg>, local_base: Var, locals: std::collections::HashMap<Var, Var>, next: Var }
impl Subst {
    fn var(&mut self, v: Var) -> Result<Var, Expr> {
        if v >= PARAM_BASE {
            match &self.params[(v - PARAM_BASE) as usize] { MacArg::Ident(x) => Ok(*x), MacArg::Expr(Expr::Var(x)) => Ok(*x), MacArg::Expr(e) => Err(e.clone()) }
        } else {
            // identifiers introduced by the macro body are fresh for each invocation
            let n = &mut self.next;
            Ok(*self.locals.entry(v).or_insert_with(|| { let g = *n; *n += 1; g }))
        }
    }
    fn expr(&mut self, e: &Expr) -> Expr {
        match e {
            Expr::Var(v) => match self.var(*v) { Ok(x) => Expr::Var(x), Err(e) => e },
            Expr::Const(c) => Expr::Const(*c),
            Expr::Succ(a) => Expr::Succ(Box::new(self.expr(a))),
            Expr::Min(a, b) => Expr::Min(Box::new(self.expr(a)), Box::new(self.expr(b))),
        }
    }
    fn arg(&mut self, a: &Arg) -> Arg {
        match a {
            Arg::Var(v) => match self.var(*v) { Ok(x) => Arg::Var(x), Err(e) => Arg::Expr(e) },
            Arg::Wild => Arg::Wild,
            Arg::Expr(e) => Arg::Expr(self.expr(e)),
            Arg::PatBind(v) => Arg::PatBind(self.var(*v).ok().expect("pattern binder must be an identifier")),
            Arg::PatLat(v) => Arg::PatLat(self.var(*v).ok().expect("pattern binder must be an identifier")),
            Arg::PatConst(c) => Arg::PatConst(*c),
        }
    }
    fn cond(&mut self, c: &Cond) -> Cond {
        let id = |s: &mut Subst, v: Var| s.var(v).ok().expect("identifier expected");
        match c {
            Cond::Ne(a, b) => Cond::Ne(self.expr(a), self.expr(b)),
            Cond::Lt(a, b) => Cond::Lt(self.expr(a), self.expr(b)),
            Cond::Eq(a, b) => Cond::Eq(self.expr(a), self.expr(b)),
            Cond::Let(v, e) => { let e2 = self.expr(e); Cond::Let(id(self, *v), e2) }
            Cond::IfLetHalf(v, e) => { let e2 = self.expr(e); Cond::IfLetHalf(id(self, *v), e2) }
            Cond::LatAbove(l, e) => { let e2 = self.expr(e); Cond::LatAbove(id(self, *l), e2) }
            Cond::IfLetConst(v, c) => Cond::IfLetConst(id(self, *v), *c),
            Cond::IfLetBind(a, b) => Cond::IfLetBind(id(self, *a), id(self, *b)),
        }
    }
    fn mac_arg(&mut self, a: &MacArg) -> MacArg {
        match a { MacArg::Ident(v) => match self.var(*v) { Ok(x) => MacArg::Ident(x), Err(e) => MacArg::Expr(e) }, MacArg::Expr(e) => MacArg::Expr(self.expr(e)) }
    }
    fn items(&mut self, items: &[BodyItem], p: &Prog, depth: usize) -> Vec<BodyItem> {
        let mut out = vec![];
        for b in items {
            match b {
                BodyItem::Atom(a) => { let args = a.args.iter().map(|x| self.arg(x)).collect(); let conds = a.conds.iter().map(|c| self.cond(c)).collect(); out.push(BodyItem::Atom(Atom { rel: a.rel, args, conds })); }
                BodyItem::Cond(c) => out.push(BodyItem::Cond(self.cond(c))),
                BodyItem::Gen(Gen::Range(v)) => out.push(BodyItem::Gen(Gen::Range(self.var(*v).ok().unwrap()))),
                BodyItem::Gen(Gen::Two(v, a, b)) => { let (a2, b2) = (self.expr(a), self.expr(b)); out.push(BodyItem::Gen(Gen::Two(self.var(*v).ok().unwrap(), a2, b2))); }
                BodyItem::Agg { res, f, bound, rel, args } => { let args2 = args.iter().map(|x| self.arg(x)).collect(); let b2 = bound.map(|b| self.var(b).ok().unwrap()); out.push(BodyItem::Agg { res: self.var(*res).ok().unwrap(), f: f.clone(), bound: b2, rel: *rel, args: args2 }); }
                BodyItem::Neg { rel, args } => out.push(BodyItem::Neg { rel: *rel, args: args.iter().map(|x| self.arg(x)).collect() }),
                BodyItem::Disj(alts) => out.push(BodyItem::Disj(alts.iter().map(|a| self.items(a, p, depth)).collect())),
                BodyItem::Call { mac, args } => {
                    // nested invocation: arguments are substituted first, then the callee is expanded with its own fresh locals
                    let args2: Vec<MacArg> = args.iter().map(|a| self.mac_arg(a)).collect();
                    let mut inner = Subst { params: args2, local_base: self.local_base, locals: Default::default(), next: self.next };
                    out.extend(inner.items(&p.macros[*mac].body, p, depth + 1));
                    self.next = inner.next;
                }
            }
        }
        assert!(depth < 50, "macro expansion too deep");
        out
    }
}

/// hand expansion of all macro invocations: the body at the call site, parameters substituted, identifiers
/// introduced by the macro body fresh for each invocation
pub fn expand_macros(p: &Prog) -> Prog {
    let mut q = p.clone();
    q.macros = vec![];
    q.rules = vec![];
    for r in &p.rules {
        let mut m: Var = 0;
        max_var(&r.body, &mut m);
        let start = m.max(149) + 1;
        // call-site identifiers are passed through unchanged: a substitution with no parameters and no renaming
        fn go(items: &[BodyItem], p: &Prog, next: &mut Var) -> Vec<BodyItem> {
            let mut out = vec![];
            for b in items {
                match b {
                    BodyItem::Call { mac, args } => {
                        let mut s = Subst { params: args.clone(), local_base: 0, locals: Default::default(), next: *next };
                        out.extend(s.items(&p.macros[*mac].body, p, 1));
                        *next = s.next;
                    }
                    BodyItem::Disj(alts) => out.push(BodyItem::Disj(alts.iter().map(|a| go(a, p, next)).collect())),
                    other => out.push(other.clone()),
                }
            }
            out
        }
        let mut next = start;
        let body = go(&r.body, p, &mut next);
        let mut heads = vec![];
        for h in &r.heads {
            match h {
                HeadItem::H(h) => heads.push(HeadItem::H(h.clone())),
                HeadItem::Call { mac, args } => {
                    let mut s = Subst { params: args.clone(), local_base: 0, locals: Default::default(), next };
                    for mh in &p.macros[*mac].heads {
                        let hargs = mh.args.iter().map(|a| match a { HArg::E(e) => HArg::E(s.expr(e)), other => other.clone() }).collect();
                        heads.push(HeadItem::H(Head { rel: mh.rel, args: hargs }));
                    }
                }
            }
        }
        q.rules.push(Rule { heads, body });
    }
    q
}

//! The harness's own expander: the documented core meaning of every surface form (C07) and of
//! in-program macros (C08). It is the semantics written down once; the compiled sugared program, the
//! compiled hand expansion and the reference evaluator must all agree.
use crate::ast::*;
use std::collections::HashSet;

fn max_var(items: &[BodyItem], m: &mut Var) {
    fn arg(a: &Arg, m: &mut Var) { match a { Arg::Var(v) | Arg::PatBind(v) | Arg::PatLat(v) => if *v < PARAM_BASE { *m = (*m).max(*v) }, Arg::Expr(e) => expr(e, m), _ => {} } }
    fn expr(e: &Expr, m: &mut Var) { match e { Expr::Var(v) => if *v < PARAM_BASE { *m = (*m).max(*v) }, Expr::Succ(a) => expr(a, m), Expr::Min(a, b) => { expr(a, m); expr(b, m) }, _ => {} } }
    fn cond(c: &Cond, m: &mut Var) { match c { Cond::Ne(a, b) | Cond::Lt(a, b) | Cond::Eq(a, b) => { expr(a, m); expr(b, m) }, Cond::Let(v, e) | Cond::IfLetHalf(v, e) | Cond::LatAbove(v, e) => { *m = (*m).max(*v); expr(e, m) }, Cond::IfLetConst(v, _) => *m = (*m).max(*v), Cond::IfLetBind(a, b) => *m = (*m).max(*a).max(*b) } }
    for b in items {
        match b {
            BodyItem::Atom(a) => { for x in &a.args { arg(x, m); } for c in &a.conds { cond(c, m); } }
            BodyItem::Cond(c) => cond(c, m),
            BodyItem::Gen(Gen::Range(v)) => *m = (*m).max(*v),
            BodyItem::Gen(Gen::Two(v, a, b)) => { *m = (*m).max(*v); expr(a, m); expr(b, m) }
            BodyItem::Agg { res, bound, args, .. } => { *m = (*m).max(*res); if let Some(b) = bound { *m = (*m).max(*b); } for x in args { arg(x, m); } }
            BodyItem::Neg { args, .. } => for x in args { arg(x, m); },
            BodyItem::Disj(alts) => for a in alts { max_var(a, m); },
            BodyItem::Call { args, .. } => for a in args { match a { MacArg::Ident(v) => if *v < PARAM_BASE { *m = (*m).max(*v) }, MacArg::Expr(e) => expr(e, m) } },
        }
    }
}

fn expr_vars(e: &Expr, out: &mut Vec<Var>) { match e { Expr::Var(v) => out.push(*v), Expr::Succ(a) => expr_vars(a, out), Expr::Min(a, b) => { expr_vars(a, out); expr_vars(b, out) }, _ => {} } }

/// disjunctions: the union of the rules obtained by picking one disjunct from each disjunction
fn disj_product(items: &[BodyItem]) -> Vec<Vec<BodyItem>> {
    let mut res: Vec<Vec<BodyItem>> = vec![vec![]];
    for it in items {
        let alts: Vec<Vec<BodyItem>> = match it {
            BodyItem::Disj(alts) => alts.iter().flat_map(|a| disj_product(a)).collect(),
            other => vec![vec![other.clone()]],
        };
        let mut next = vec![];
        for r in &res { for a in &alts { let mut x = r.clone(); x.extend(a.iter().cloned()); next.push(x); } }
        res = next;
    }
    res
}

/// core form of one conjunctive body
fn desugar_body(body: Vec<BodyItem>) -> Vec<BodyItem> {
    let mut fresh: Var = 0;
    max_var(&body, &mut fresh);
    fresh = fresh.max(99) + 1;
    let mut bound: HashSet<Var> = HashSet::new();
    let mut out = vec![];
    for it in body {
        match it {
            BodyItem::Atom(a) => {
                let mut here: HashSet<Var> = HashSet::new(); // variables bound by this clause
                let mut args = vec![];
                let mut eq_conds = vec![];
                let mut pat_conds = vec![];
                for arg in a.args {
                    match arg {
                        Arg::Var(v) => {
                            if here.contains(&v) {
                                // repeated variable inside one clause: fresh variable + equality test
                                let g = fresh; fresh += 1;
                                eq_conds.push(Cond::Eq(Expr::Var(g), Expr::Var(v)));
                                args.push(Arg::Var(g));
                            } else {
                                if !bound.contains(&v) { here.insert(v); }
                                args.push(Arg::Var(v));
                            }
                        }
                        Arg::Wild => { let g = fresh; fresh += 1; args.push(Arg::Var(g)); }
                        Arg::Expr(e) => {
                            // non-variable argument: fresh variable + equality test against the column
                            let g = fresh; fresh += 1;
                            eq_conds.push(Cond::Eq(Expr::Var(g), e));
                            args.push(Arg::Var(g));
                        }
                        Arg::PatBind(v) | Arg::PatLat(v) => { let g = fresh; fresh += 1; pat_conds.push(Cond::IfLetBind(v, g)); here.insert(v); args.push(Arg::Var(g)); }
                        Arg::PatConst(c) => { let g = fresh; fresh += 1; pat_conds.push(Cond::IfLetConst(g, c)); args.push(Arg::Var(g)); }
                    }
                }
                let mut conds = eq_conds;
                conds.extend(pat_conds);
                conds.extend(a.conds);
                for c in &conds { if let Cond::Let(v, _) | Cond::IfLetHalf(v, _) | Cond::IfLetBind(v, _) = c { bound.insert(*v); } }
                bound.extend(here);
                out.push(BodyItem::Atom(Atom { rel: a.rel, args, conds }));
            }
            BodyItem::Neg { rel, args } => out.push(BodyItem::Agg { res: fresh_unit(&mut fresh), f: AggFn::Not, bound: None, rel, args }),
            BodyItem::Cond(c) => { if let Cond::Let(v, _) | Cond::IfLetHalf(v, _) | Cond::IfLetBind(v, _) = &c { bound.insert(*v); } out.push(BodyItem::Cond(c)); }
            BodyItem::Gen(g) => { match &g { Gen::Range(v) | Gen::Two(v, _, _) => { bound.insert(*v); } } out.push(BodyItem::Gen(g)); }
            BodyItem::Agg { res, f, bound: b, rel, args } => { bound.insert(res); out.push(BodyItem::Agg { res, f, bound: b, rel, args }); }
            BodyItem::Disj(_) => panic!("desugar_body: disjunction not expanded"),
            BodyItem::Call { .. } => panic!("desugar_body: macro call not expanded"),
        }
    }
    out
}
fn fresh_unit(f: &mut Var) -> Var { let g = *f; *f += 1; g }

/// the documented core expansion of a program without macros
pub fn desugar(p: &Prog) -> Prog {
    let mut q = p.clone();
    q.rules = vec![];
    for r in &p.rules {
        for body in disj_product(&r.body) {
            let core = desugar_body(body);
            // a rule with several head clauses is one rule per head clause
            for h in &r.heads { q.rules.push(Rule { heads: vec![h.clone()], body: core.clone() }); }
        }
    }
    q
}

pub fn uses_expr_vars(e: &Expr) -> Vec<Var> { let mut v = vec![]; expr_vars(e, &mut v); v }

//! pgen <family> <tier> <outdir> [nshards]   — writes the batch crates for a family
//! pgen --list <family> <tier> [k]           — prints the first k programs
fn main() {
    let args: Vec<String> = std::env::args().collect();
    if args[1] == "--list" {
        let us = prog::families::units(&args[2], args[3] == "thorough");
        println!("{} units, {} variants", us.len(), us.iter().map(|u| u.variants.len()).sum::<usize>());
        for u in us.iter().take(args.get(4).and_then(|s| s.parse().ok()).unwrap_or(5)) {
            for v in &u.variants { println!("--- {} [{}]\n   {}", u.tag, v.label, prog::harness::variant_items(v).join("\n   ")); }
        }
        return;
    }
    if args[1] == "--selftest" {
        match prog::vfn::selftest() { Ok(n) => println!("vfn selftest ok: {} carrier elements", n), Err(e) => { eprintln!("vfn selftest FAILED: {}", e); std::process::exit(2) } }
        return;
    }
    if args[1] == "--describe-all" {
        // pgen --describe-all <family> <tier> <step>: every step-th unit with its first variant's items and relation table
        let us = prog::families::units(&args[2], args[3] == "thorough");
        let step: usize = args.get(4).and_then(|s| s.parse().ok()).unwrap_or(1);
        let mut arr = vec![];
        for (ui, u) in us.iter().enumerate() {
            if ui % step != 0 { continue; }
            let v = &u.variants[0];
            let rels: Vec<prog::mj::J> = v.prog.rels.iter().map(|r| prog::mj::obj(vec![("name", r.name.clone().into()), ("arity", r.arity.into()), ("lattice", r.lat.is_some().into()), ("ds", r.ds.is_some().into())])).collect();
            arr.push(prog::mj::obj(vec![("family", args[2].clone().into()), ("unit", ui.into()), ("tag", u.tag.clone().into()), ("items", prog::harness::variant_items(v).into()), ("rels", prog::mj::J::Arr(rels)),
                ("nrels", v.prog.rels.len().into()), ("nmacros", v.prog.macros.len().into())]));
        }
        println!("{}", prog::mj::J::Arr(arr).to_string());
        return;
    }
    if args[1] == "--describe" {
        // pgen --describe <family> <tier> <unit>: JSON description of one unit (for compile-failure reports)
        let us = prog::families::units(&args[2], args[3] == "thorough");
        let ui: usize = args[4].parse().unwrap();
        let u = &us[ui];
        let j = prog::mj::obj(vec![("unit", ui.into()), ("tag", u.tag.clone().into()),
            ("variants", prog::mj::J::Arr(u.variants.iter().map(|v| prog::mj::obj(vec![("label", v.label.clone().into()), ("program", prog::harness::variant_items(v).into())])).collect()))]);
        println!("{}", j.to_string());
        return;
    }
    let (family, tier, out) = (&args[1], &args[2], &args[3]);
    let nshards: usize = args.get(4).and_then(|s| s.parse().ok()).unwrap_or(16);
    let mut us = prog::families::units(family, tier == "thorough");
    // units whose program does not compile are excluded from the batch (reported by the driver)
    let excl_path = std::path::Path::new(out).join(format!("{}_{}", family, tier)).join("exclude.json");
    if let Ok(txt) = std::fs::read_to_string(&excl_path) {
        if let Ok(j) = prog::mj::J::parse(&txt) {
            if let Some(a) = j.get("units").as_array() { for x in a { let i = x.as_u64().unwrap() as usize; if i < us.len() { us[i].variants.clear(); } } }
        }
    }
    let byods = us.iter().any(|u| u.variants.iter().any(|v| v.prog.rels.iter().any(|r| r.ds.is_some())));
    let engines = std::env::var("VERIF_ENGINES").unwrap_or_else(|_| "/verif/engines".into());
    let (nu, nv) = prog::gen::generate(family, tier, &us, nshards, std::path::Path::new(out), &engines, byods);
    println!("generated family {} tier {}: {} units, {} variants, {} shards", family, tier, nu, nv, nshards);
}

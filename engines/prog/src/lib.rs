//! Engine P (progcheck): program AST, printer, reference evaluator, program families, crate
//! generator and the run-time harness that drives compiled programs over all inputs.
pub mod ast;
pub mod mj;
pub mod report;
pub mod print;
pub mod refeval;
pub mod vfn;
pub mod expand;
pub mod families;
pub mod gen;
pub mod harness;

//! vsched — a small CHESS-style controlled scheduler and stateless explorer.
//!
//! Virtual threads are OS threads gated by a baton: exactly one runs at any time. Scheduling points
//! are lock acquisitions, forks, joins, thread ends and explicit `point()` calls. An execution is
//! determined by its list of choices; the explorer enumerates every execution whose number of
//! deviations (forks, preemptions of a runnable thread, non-default worker slots) stays within a bound,
//! by depth-first search over choice prefixes with replay from the start (no state is saved).
use std::any::Any;
use std::collections::HashMap;
use std::sync::{Arc, Condvar, Mutex, MutexGuard};

const JOIN_BASE: usize = usize::MAX / 2;

#[derive(Clone, Debug, PartialEq)]
pub enum Failure { Panic(String), Deadlock(String), StepLimit, ReplayDivergence(String) }

/// marker payload used to unwind the other virtual threads once an execution has failed
struct Aborted;

#[derive(Clone, Debug)]
pub struct Choice { pub options: u8, pub chosen: u8, pub costs: Vec<u8>, pub kind: &'static str }

#[derive(Clone, Copy, PartialEq, Debug)]
enum Status { Runnable, Blocked(usize), Finished }

struct Th { status: Status, pool: usize, worker: usize }

struct Pool { size: usize, busy: Vec<bool> }

struct Inner {
    current: usize,
    threads: Vec<Th>,
    pools: Vec<Pool>,
    prefix: Vec<u8>,
    trace: Vec<Choice>,
    abort: Option<Failure>,
    steps: usize,
    step_limit: usize,
    live_os: usize,
    inline_only: bool,
    lock_ids: HashMap<usize, usize>,
    obs_log: Vec<String>,
    /// std locks announced through hooks: address -> owner
    held: HashMap<usize, usize>,
    /// std read-write locks announced through hooks: address -> (readers, writer held)
    rw: HashMap<usize, (usize, bool)>,
}

pub struct Sched { inner: Mutex<Inner>, cv: Condvar }

// OS threads are reused across executions: a virtual thread is a job handed to an idle pooled thread
type OsJob = Box<dyn FnOnce() + Send + 'static>;
static IDLE: Mutex<Vec<std::sync::mpsc::Sender<OsJob>>> = Mutex::new(Vec::new());
fn os_spawn(job: OsJob) {
    let idle = IDLE.lock().unwrap_or_else(|e| e.into_inner()).pop();
    match idle {
        Some(tx) => { if let Err(e) = tx.send(job) { os_spawn(e.0); } }
        None => {
            let (tx, rx) = std::sync::mpsc::channel::<OsJob>();
            tx.send(job).unwrap();
            std::thread::Builder::new().stack_size(64 << 20).spawn(move || {
                while let Ok(j) = rx.recv() {
                    j();
                    ME.with(|m| m.set(None));
                    IDLE.lock().unwrap_or_else(|e| e.into_inner()).push(tx.clone());
                }
            }).expect("spawn OS thread");
        }
    }
}

static ACTIVE: Mutex<Option<Arc<Sched>>> = Mutex::new(None);
thread_local! { static ME: std::cell::Cell<Option<usize>> = const { std::cell::Cell::new(None) }; }

fn sched() -> Option<(Arc<Sched>, usize)> {
    let me = ME.with(|m| m.get())?;
    let s = ACTIVE.lock().unwrap_or_else(|e| e.into_inner()).clone()?;
    Some((s, me))
}

/// is the calling thread a virtual thread of a running exploration?
pub fn active() -> bool { ME.with(|m| m.get()).is_some() }

impl Sched {
    fn lock(&self) -> MutexGuard<'_, Inner> { self.inner.lock().unwrap_or_else(|e| e.into_inner()) }

    /// blocks the calling OS thread until it holds the baton (or the execution is aborted)
    fn wait_turn<'a>(&'a self, mut g: MutexGuard<'a, Inner>, me: usize) -> MutexGuard<'a, Inner> {
        loop {
            if g.abort.is_some() { drop(g); std::panic::resume_unwind(Box::new(Aborted)); }
            if g.current == me && g.threads[me].status == Status::Runnable { return g; }
            g = self.cv.wait(g).unwrap_or_else(|e| e.into_inner());
        }
    }

    fn fail(&self, g: &mut MutexGuard<'_, Inner>, f: Failure) {
        if g.abort.is_none() { g.abort = Some(f); }
        self.cv.notify_all();
    }

    /// records a choice among `costs.len()` options and returns the chosen index
    fn choose(&self, g: &mut MutexGuard<'_, Inner>, costs: Vec<u8>, kind: &'static str) -> usize {
        let pos = g.trace.len();
        let n = costs.len();
        let c = if pos < g.prefix.len() {
            let c = g.prefix[pos] as usize;
            if c >= n {
                let msg = format!("choice {} at point {} ({}) has only {} options", c, pos, kind, n);
                self.fail(g, Failure::ReplayDivergence(msg));
                0
            } else { c }
        } else { 0 };
        g.trace.push(Choice { options: n as u8, chosen: c as u8, costs, kind });
        g.steps += 1;
        if g.steps > g.step_limit { self.fail(g, Failure::StepLimit); }
        c
    }

    fn runnable(g: &Inner) -> Vec<usize> { (0..g.threads.len()).filter(|t| g.threads[*t].status == Status::Runnable).collect() }

    /// hands the baton to `next` and waits until it comes back to `me` (if `me` is still alive)
    fn switch<'a>(&'a self, mut g: MutexGuard<'a, Inner>, me: usize, next: usize) -> MutexGuard<'a, Inner> {
        g.current = next;
        self.cv.notify_all();
        if g.threads[me].status == Status::Finished { return g; }
        self.wait_turn(g, me)
    }

    /// the current thread cannot continue (blocked or finished): pick who runs next (a free choice)
    fn yield_blocked<'a>(&'a self, mut g: MutexGuard<'a, Inner>, me: usize) -> MutexGuard<'a, Inner> {
        let r = Self::runnable(&g);
        if r.is_empty() {
            let blocked: Vec<String> = g.threads.iter().enumerate().filter_map(|(i, t)| if let Status::Blocked(a) = t.status { Some(format!("t{} on {}", i, describe(&g, a))) } else { None }).collect();
            if !blocked.is_empty() {
                self.fail(&mut g, Failure::Deadlock(format!("no runnable thread; blocked: {}", blocked.join(", "))));
                if g.threads[me].status == Status::Finished { return g; }
                drop(g);
                std::panic::resume_unwind(Box::new(Aborted));
            }
            // everything finished
            self.cv.notify_all();
            return g;
        }
        let c = if r.len() > 1 { self.choose(&mut g, vec![0; r.len()], "blocked") } else { 0 };
        let next = r[c.min(r.len() - 1)];
        self.switch(g, me, next)
    }
}

fn describe(g: &Inner, addr: usize) -> String {
    if addr >= JOIN_BASE { format!("join(t{})", addr - JOIN_BASE) } else { format!("lock#{}", g.lock_ids.get(&addr).cloned().unwrap_or(usize::MAX)) }
}

// ------------------------------------------------------------------------------------------------ API for shims
/// a scheduling point: another runnable thread may be switched to (a preemption, cost 1)
pub fn point(kind: &'static str) {
    let Some((s, me)) = sched() else { return };
    let mut g = s.lock();
    if g.abort.is_some() { drop(g); if !std::thread::panicking() { std::panic::resume_unwind(Box::new(Aborted)); } return; }
    let others: Vec<usize> = Sched::runnable(&g).into_iter().filter(|t| *t != me).collect();
    if others.is_empty() { return; }
    let mut costs = vec![0u8];
    costs.extend(others.iter().map(|_| 1u8));
    let c = s.choose(&mut g, costs, kind);
    if c > 0 { let next = others[c - 1]; let _g = s.switch(g, me, next); }
}

/// the calling thread waits for `addr` to be signalled by `wake_all(addr)`
pub fn block_on(addr: usize) {
    let Some((s, me)) = sched() else { panic!("vsched: would block outside an exploration (lock held across the harness boundary?)") };
    let mut g = s.lock();
    if g.abort.is_some() { drop(g); if !std::thread::panicking() { std::panic::resume_unwind(Box::new(Aborted)); } return; }
    let n = g.lock_ids.len();
    g.lock_ids.entry(addr).or_insert(n);
    g.threads[me].status = Status::Blocked(addr);
    let _g = s.yield_blocked(g, me);
}

pub fn wake_all(addr: usize) {
    let Some((s, _me)) = sched() else { return };
    let mut g = s.lock();
    for t in g.threads.iter_mut() { if t.status == Status::Blocked(addr) { t.status = Status::Runnable; } }
}

/// a std mutex at `addr` is about to be taken by the caller: scheduling point, then wait in the model until it is
/// free, so that the real lock is uncontended when reached
pub fn mutex_acquire(addr: usize) {
    if !active() { return; }
    point("mutex");
    loop {
        {
            let Some((s, me)) = sched() else { return };
            let mut g = s.lock();
            if g.abort.is_some() { drop(g); if !std::thread::panicking() { std::panic::resume_unwind(Box::new(Aborted)); } return; }
            if !g.held.contains_key(&addr) { g.held.insert(addr, me); return; }
        }
        block_on(addr);
    }
}
pub fn mutex_release(addr: usize) {
    let Some((s, _me)) = sched() else { return };
    { let mut g = s.lock(); g.held.remove(&addr); }
    wake_all(addr);
}

/// a std read-write lock at `addr` is about to be taken (shared or exclusive): scheduling point, then wait in the
/// model until it is available
pub fn rw_acquire(addr: usize, exclusive: bool) {
    if !active() { return; }
    point(if exclusive { "rwlock-write" } else { "rwlock-read" });
    loop {
        {
            let Some((s, _me)) = sched() else { return };
            let mut g = s.lock();
            if g.abort.is_some() { drop(g); if !std::thread::panicking() { std::panic::resume_unwind(Box::new(Aborted)); } return; }
            let e = g.rw.entry(addr).or_insert((0, false));
            if exclusive { if e.0 == 0 && !e.1 { e.1 = true; return; } } else if !e.1 { e.0 += 1; return; }
        }
        block_on(addr);
    }
}
pub fn rw_release(addr: usize, exclusive: bool) {
    let Some((s, _me)) = sched() else { return };
    { let mut g = s.lock(); if let Some(e) = g.rw.get_mut(&addr) { if exclusive { e.1 = false; } else if e.0 > 0 { e.0 -= 1; } } }
    wake_all(addr);
}

/// while set, fork choices are not offered (jobs run inline): used for deterministic read-back phases
pub fn inline_only(on: bool) { if let Some((s, _)) = sched() { s.lock().inline_only = on; } }

/// free-form note appended to the execution's observation log (deterministic replay check)
pub fn note(s: String) { if let Some((sc, _)) = sched() { let mut g = sc.lock(); if g.obs_log.len() < 10_000 { g.obs_log.push(s); } } }

pub fn current_worker() -> Option<(usize, usize, usize)> {
    let (s, me) = sched()?;
    let g = s.lock();
    let t = &g.threads[me];
    Some((t.pool, t.worker, g.pools[t.pool].size))
}

/// can a job be started on another worker of the current pool right now?
fn free_slot(g: &Inner, pool: usize) -> Option<usize> { g.pools[pool].busy.iter().position(|b| !*b) }

pub struct Handle<'a, R> { tid: usize, slot: Arc<Mutex<Option<std::thread::Result<R>>>>, joined: bool, _p: std::marker::PhantomData<&'a ()> }

/// Fork choice: returns None for "run inline" (default) or starts `f` on a free worker as a new virtual thread.
/// `f` is handed back when not forked (the caller runs it with `false`); a forked `f` is called with `true`.
pub fn maybe_fork<'a, R: Send + 'a, F: FnOnce(bool) -> R + Send + 'a>(f: F, kind: &'static str) -> Result<Handle<'a, R>, F> {
    let Some((s, me)) = sched() else { return Err(f) };
    let mut g = s.lock();
    if g.abort.is_some() { drop(g); std::panic::resume_unwind(Box::new(Aborted)); }
    let pool = g.threads[me].pool;
    if g.inline_only { return Err(f); }
    let Some(slot_idx) = free_slot(&g, pool) else { return Err(f) };
    let c = s.choose(&mut g, vec![0, 1], kind);
    if c == 0 { return Err(f); }
    // start a new virtual thread
    let tid = g.threads.len();
    g.pools[pool].busy[slot_idx] = true;
    g.threads.push(Th { status: Status::Runnable, pool, worker: slot_idx });
    let slot: Arc<Mutex<Option<std::thread::Result<R>>>> = Arc::new(Mutex::new(None));
    let slot2 = slot.clone();
    let s2 = s.clone();
    let job: Box<dyn FnOnce() + Send + 'a> = Box::new(move || {
        let r = std::panic::catch_unwind(std::panic::AssertUnwindSafe(move || f(true)));
        *slot2.lock().unwrap_or_else(|e| e.into_inner()) = Some(r);
    });
    // SAFETY: the handle is joined (explicitly or in Drop) before 'a ends, as rayon's StackJob does
    let job: Box<dyn FnOnce() + Send + 'static> = unsafe { std::mem::transmute(job) };
    g.live_os += 1;
    drop(g);
    os_spawn(Box::new(move || vthread_main(s2, tid, job)));
    // after a fork both threads are runnable: a scheduling point
    point("after-fork");
    Ok(Handle { tid, slot, joined: false, _p: std::marker::PhantomData })
}

fn vthread_main(s: Arc<Sched>, tid: usize, job: Box<dyn FnOnce() + Send>) {
    ME.with(|m| m.set(Some(tid)));
    let r = std::panic::catch_unwind(std::panic::AssertUnwindSafe(|| {
        let g = s.lock();
        let g = s.wait_turn(g, tid);
        drop(g);
        job();
    }));
    // thread end
    let mut g = s.lock();
    if let Err(e) = r { if !e.is::<Aborted>() { let msg = panic_msg(&e); s.fail(&mut g, Failure::Panic(msg)); } }
    g.threads[tid].status = Status::Finished;
    let (p, w) = (g.threads[tid].pool, g.threads[tid].worker);
    g.pools[p].busy[w] = false;
    for t in g.threads.iter_mut() { if t.status == Status::Blocked(JOIN_BASE + tid) { t.status = Status::Runnable; } }
    if g.abort.is_some() { g.live_os -= 1; s.cv.notify_all(); return; }
    if g.current == tid { g = s.yield_blocked(g, tid); }
    g.live_os -= 1;
    s.cv.notify_all();
}

fn panic_msg(e: &Box<dyn Any + Send>) -> String {
    if let Some(s) = e.downcast_ref::<&str>() { s.to_string() } else if let Some(s) = e.downcast_ref::<String>() { s.clone() } else { "<non-string panic>".into() }
}

impl<'a, R> Handle<'a, R> {
    pub fn join(mut self) -> R {
        self.wait();
        self.joined = true;
        let r = self.slot.lock().unwrap_or_else(|e| e.into_inner()).take();
        match r {
            Some(Ok(v)) => v,
            Some(Err(e)) => std::panic::resume_unwind(e),
            None => std::panic::resume_unwind(Box::new(Aborted)),
        }
    }
    fn wait(&self) {
        let Some((s, _me)) = sched() else { return };
        loop {
            let g = s.lock();
            if g.abort.is_some() { drop(g); if std::thread::panicking() { return; } std::panic::resume_unwind(Box::new(Aborted)); }
            if g.threads[self.tid].status == Status::Finished { return; }
            drop(g);
            block_on(JOIN_BASE + self.tid);
        }
    }
}
impl<'a, R> Drop for Handle<'a, R> {
    fn drop(&mut self) {
        if self.joined { return; }
        // unwinding: the child must be gone before the borrowed data goes away. The execution has been
        // aborted, so the child unwinds on its own; wait for its OS thread to record Finished.
        if let Some((s, _)) = sched() {
            let mut g = s.lock();
            if g.abort.is_none() { s.fail(&mut g, Failure::Panic("handle dropped without join".into())); }
            while g.threads[self.tid].status != Status::Finished { g = s.cv.wait_timeout(g, std::time::Duration::from_millis(5)).unwrap_or_else(|e| e.into_inner()).0; }
        }
    }
}

/// switches the calling virtual thread into another pool for the duration of `f` (rayon's ThreadPool::install)
pub fn with_pool<R>(pool_size: usize, pool_id: &std::sync::atomic::AtomicUsize, f: impl FnOnce() -> R) -> R {
    let Some((s, me)) = sched() else { return f() };
    let mut g = s.lock();
    // pools are registered on first use within an execution
    let mut id = pool_id.load(std::sync::atomic::Ordering::Relaxed);
    if id == usize::MAX || id >= g.pools.len() || g.pools[id].size != pool_size {
        g.pools.push(Pool { size: pool_size, busy: vec![false; pool_size] });
        id = g.pools.len() - 1;
        pool_id.store(id, std::sync::atomic::Ordering::Relaxed);
    }
    let (old_pool, old_worker) = (g.threads[me].pool, g.threads[me].worker);
    if old_pool == id { drop(g); return f(); }
    // the job runs on one of the target pool's workers: the lowest free slot by default
    let free: Vec<usize> = (0..pool_size).filter(|w| !g.pools[id].busy[*w]).collect();
    if free.is_empty() { drop(g); panic!("vsched: install into a pool with no free worker is not modelled"); }
    let mut costs = vec![0u8];
    costs.extend(free.iter().skip(1).map(|_| 1u8));
    let c = if free.len() > 1 { s.choose(&mut g, costs, "install-worker") } else { 0 };
    let w = free[c.min(free.len() - 1)];
    g.pools[id].busy[w] = true;
    g.threads[me].pool = id;
    g.threads[me].worker = w;
    drop(g);
    struct Restore { s: Arc<Sched>, me: usize, id: usize, w: usize, old_pool: usize, old_worker: usize }
    impl Drop for Restore { fn drop(&mut self) { let mut g = self.s.lock(); g.pools[self.id].busy[self.w] = false; g.threads[self.me].pool = self.old_pool; g.threads[self.me].worker = self.old_worker; } }
    let _r = Restore { s, me, id, w, old_pool, old_worker };
    f()
}

// ------------------------------------------------------------------------------------------------ explorer
#[derive(Clone, Debug)]
pub struct Config { pub workers: usize, pub max_deviations: u32, pub step_limit: usize, pub max_executions: u64, pub shard: (usize, usize) }
impl Default for Config { fn default() -> Self { Config { workers: 2, max_deviations: 2, step_limit: 200_000, max_executions: u64::MAX, shard: (0, 1) } } }

pub struct Execution<O> { pub result: Result<O, Failure>, pub trace: Vec<Choice>, pub log: Vec<String> }

static RUN_LOCK: Mutex<()> = Mutex::new(());

/// one execution of `body` following `prefix`, then default choices
pub fn run_one<O: Send + 'static>(cfg: &Config, prefix: &[u8], body: &(dyn Fn() -> O + Sync)) -> Execution<O> {
    let _only_one = RUN_LOCK.lock().unwrap_or_else(|e| e.into_inner());
    let s = Arc::new(Sched {
        inner: Mutex::new(Inner {
            current: 0, threads: vec![Th { status: Status::Runnable, pool: 0, worker: 0 }],
            pools: vec![Pool { size: cfg.workers, busy: { let mut b = vec![false; cfg.workers]; b[0] = true; b } }],
            prefix: prefix.to_vec(), trace: vec![], abort: None, steps: 0, step_limit: cfg.step_limit, live_os: 1, inline_only: false, lock_ids: HashMap::new(), obs_log: vec![], held: HashMap::new(), rw: HashMap::new(),
        }),
        cv: Condvar::new(),
    });
    *ACTIVE.lock().unwrap_or_else(|e| e.into_inner()) = Some(s.clone());
    let out: Arc<Mutex<Option<O>>> = Arc::new(Mutex::new(None));
    let out2 = out.clone();
    let s2 = s.clone();
    // SAFETY: the main virtual thread is joined below before `body` goes out of scope
    let body_static: &'static (dyn Fn() -> O + Sync) = unsafe { std::mem::transmute(body) };
    os_spawn(Box::new(move || {
        vthread_main(s2, 0, Box::new(move || { let o = body_static(); *out2.lock().unwrap_or_else(|e| e.into_inner()) = Some(o); }))
    }));
    // wait until every virtual thread of this execution has ended
    {
        let mut g = s.lock();
        while g.live_os > 0 { g = s.cv.wait(g).unwrap_or_else(|e| e.into_inner()); }
    }
    *ACTIVE.lock().unwrap_or_else(|e| e.into_inner()) = None;
    let mut g = s.lock();
    let trace = std::mem::take(&mut g.trace);
    let log = std::mem::take(&mut g.obs_log);
    let result = match g.abort.take() {
        Some(f) => Err(f),
        None => match out.lock().unwrap_or_else(|e| e.into_inner()).take() { Some(o) => Ok(o), None => Err(Failure::Panic("main thread produced no result".into())) },
    };
    Execution { result, trace, log }
}

#[derive(Default, Debug, Clone)]
pub struct Stats {
    pub executions: u64,
    pub choice_points: u64,
    pub max_trace_len: usize,
    pub completed_bound: u32,
    pub cap_hit: Option<String>,
    pub by_deviations: Vec<u64>,
    pub replays_checked: u64,
}

fn deviations(tr: &[Choice]) -> u32 { tr.iter().map(|c| c.costs[c.chosen as usize] as u32).sum() }

/// Enumerates every execution with at most `cfg.max_deviations` deviations; `visit` gets each one.
/// Returns Err on nondeterministic replay (a machinery error, never a verdict).
pub fn explore<O: Send + 'static>(cfg: &Config, body: &(dyn Fn() -> O + Sync), visit: &mut dyn FnMut(&[u8], &Execution<O>) -> bool) -> Result<Stats, String> {
    explore_with(cfg, &mut |prefix: &[u8]| run_one(cfg, prefix, body), visit)
}

/// as `explore`, with the execution of one schedule prefix supplied by the caller (e.g. in a fresh process, for code
/// whose process-wide state must not leak from one execution into the next)
pub fn explore_with<O>(cfg: &Config, runner: &mut dyn FnMut(&[u8]) -> Execution<O>, visit: &mut dyn FnMut(&[u8], &Execution<O>) -> bool) -> Result<Stats, String> {
    let mut st = Stats { by_deviations: vec![0; cfg.max_deviations as usize + 1], ..Default::default() };
    // stack of prefixes still to run
    let mut stack: Vec<Vec<u8>> = vec![vec![]];
    let mut first = true;
    while let Some(prefix) = stack.pop() {
        if st.executions >= cfg.max_executions { st.cap_hit = Some(format!("execution cap {} reached", cfg.max_executions)); break; }
        let ex = runner(&prefix);
        if let Err(Failure::ReplayDivergence(m)) = &ex.result { return Err(format!("replay divergence under prefix {:?}: {}", prefix, m)); }
        // the prefix must have been followed exactly
        for (i, c) in prefix.iter().enumerate() { if ex.trace.get(i).map(|t| t.chosen) != Some(*c) { return Err(format!("prefix {:?} not reproduced at point {}", prefix, i)); } }
        st.executions += 1;
        st.choice_points += ex.trace.len() as u64;
        st.max_trace_len = st.max_trace_len.max(ex.trace.len());
        let d = deviations(&ex.trace);
        if (d as usize) < st.by_deviations.len() { st.by_deviations[d as usize] += 1; }
        // determinism spot check: first execution and every 1000th are replayed and must give the same trace shape
        if first || st.executions % 1000 == 0 {
            let chosen: Vec<u8> = ex.trace.iter().map(|c| c.chosen).collect();
            let ex2 = runner(&chosen);
            let shape = |t: &[Choice]| t.iter().map(|c| (c.options, c.chosen, c.kind)).collect::<Vec<_>>();
            if shape(&ex.trace) != shape(&ex2.trace) || ex.log != ex2.log { return Err(format!("nondeterministic replay of schedule {:?}", chosen)); }
            st.replays_checked += 1;
        }
        let keep_going = visit(&ex.trace.iter().map(|c| c.chosen).collect::<Vec<u8>>(), &ex);
        if !keep_going { break; }
        // children: alternatives at every point at or after the end of the prefix
        let mut cost_before: u32 = ex.trace[..prefix.len().min(ex.trace.len())].iter().map(|c| c.costs[c.chosen as usize] as u32).sum();
        let mut children = vec![];
        for i in prefix.len()..ex.trace.len() {
            let c = &ex.trace[i];
            for alt in 1..c.options {
                if cost_before + c.costs[alt as usize] as u32 <= cfg.max_deviations {
                    let mut p: Vec<u8> = ex.trace[..i].iter().map(|c| c.chosen).collect();
                    p.push(alt);
                    children.push(p);
                }
            }
            cost_before += c.costs[c.chosen as usize] as u32;
        }
        if first && cfg.shard.1 > 1 {
            // the frontier after the first execution is split round-robin over the shards
            children = children.into_iter().enumerate().filter(|(i, _)| i % cfg.shard.1 == cfg.shard.0).map(|(_, c)| c).collect();
        }
        first = false;
        // depth-first, simplest (earliest, lowest alternative) first
        children.reverse();
        stack.extend(children);
    }
    if st.cap_hit.is_none() { st.completed_bound = cfg.max_deviations; }
    Ok(st)
}

//! Stand-in for rayon-core 1.13: the same public API, executed by the `vsched` scheduler.
//!
//! `join(a, b)` and `Scope::spawn` are fork choices: *inline* (b after a on the same worker: the job was not
//! stolen) or *fork* (b starts on a free worker slot of the current pool as a new virtual thread: the job was
//! stolen). The model stays inside rayon's contract: never two jobs on one worker index at a time, never more
//! than `num_threads` jobs of a pool at once. Outside an exploration everything runs inline.
use std::sync::atomic::{AtomicUsize, Ordering};
use std::sync::{Arc, Mutex};

pub struct FnContext { migrated: bool }
impl FnContext { #[inline] pub fn migrated(&self) -> bool { self.migrated } }

pub fn join<A, B, RA, RB>(oper_a: A, oper_b: B) -> (RA, RB)
where A: FnOnce() -> RA + Send, B: FnOnce() -> RB + Send, RA: Send, RB: Send {
    join_context(|_| oper_a(), |_| oper_b())
}

pub fn join_context<A, B, RA, RB>(oper_a: A, oper_b: B) -> (RA, RB)
where A: FnOnce(FnContext) -> RA + Send, B: FnOnce(FnContext) -> RB + Send, RA: Send, RB: Send {
    match vsched::maybe_fork(move |migrated| oper_b(FnContext { migrated }), "join") {
        Ok(h) => {
            // stolen: b runs on another worker while a runs here
            let ra = oper_a(FnContext { migrated: false });
            let rb = h.join();
            (ra, rb)
        }
        Err(b) => {
            // not stolen: b runs after a on this worker
            let ra = oper_a(FnContext { migrated: false });
            let rb = b(false);
            (ra, rb)
        }
    }
}

pub fn current_num_threads() -> usize { vsched::current_worker().map(|(_, _, n)| n).unwrap_or_else(|| OUTSIDE_THREADS.load(Ordering::Relaxed)) }
pub fn current_thread_index() -> Option<usize> { vsched::current_worker().map(|(_, w, _)| w) }
pub fn max_num_threads() -> usize { 1 << 16 }

/// number of threads reported outside an exploration (e.g. while a harness builds its inputs)
static OUTSIDE_THREADS: AtomicUsize = AtomicUsize::new(1);
pub fn shim_set_outside_threads(n: usize) { OUTSIDE_THREADS.store(n, Ordering::Relaxed) }

// ------------------------------------------------------------------------------------------------ scope
type Job<'scope> = Box<dyn FnOnce(&Scope<'scope>) + Send + 'scope>;
pub struct Scope<'scope> {
    deferred: Mutex<Vec<Job<'scope>>>,
    forked: Mutex<Vec<vsched::Handle<'scope, ()>>>,
}
pub struct ScopeFifo<'scope> { inner: Scope<'scope> }

struct SendPtr<T>(*const T);
unsafe impl<T> Send for SendPtr<T> {}

impl<'scope> Scope<'scope> {
    pub fn spawn<BODY>(&self, body: BODY) where BODY: FnOnce(&Scope<'scope>) + Send + 'scope {
        let me = SendPtr(self as *const Scope<'scope>);
        // SAFETY: the scope outlives every job spawned into it (jobs are joined before `scope` returns)
        let run = move |_forked: bool| { let me = me; body(unsafe { &*me.0 }) };
        match vsched::maybe_fork(run, "scope-spawn") {
            Ok(h) => self.forked.lock().unwrap().push(h),
            Err(run) => self.deferred.lock().unwrap().push(Box::new(move |_s| run(false))),
        }
    }
    pub fn spawn_broadcast<BODY>(&self, _body: BODY) where BODY: Fn(&Scope<'scope>, BroadcastContext<'_>) + Send + Sync + 'scope { unimplemented!("shim: Scope::spawn_broadcast") }

    fn complete(&self) {
        loop {
            // jobs that were not stolen run on the owner, most recent first (the owner pops its own deque)
            let job = self.deferred.lock().unwrap().pop();
            if let Some(j) = job { j(self); continue; }
            let h = self.forked.lock().unwrap().pop();
            match h { Some(h) => h.join(), None => break }
        }
    }
}
impl<'scope> ScopeFifo<'scope> {
    pub fn spawn_fifo<BODY>(&self, body: BODY) where BODY: FnOnce(&ScopeFifo<'scope>) + Send + 'scope {
        let me = SendPtr(self as *const ScopeFifo<'scope>);
        self.inner.spawn(move |_| { let me = me; body(unsafe { &*me.0 }) })
    }
    pub fn spawn_broadcast<BODY>(&self, _body: BODY) where BODY: Fn(&ScopeFifo<'scope>, BroadcastContext<'_>) + Send + Sync + 'scope { unimplemented!("shim") }
}

pub fn scope<'scope, OP, R>(op: OP) -> R where OP: FnOnce(&Scope<'scope>) -> R + Send, R: Send {
    let s = Scope { deferred: Mutex::new(vec![]), forked: Mutex::new(vec![]) };
    let r = op(&s);
    s.complete();
    r
}
pub fn in_place_scope<'scope, OP, R>(op: OP) -> R where OP: FnOnce(&Scope<'scope>) -> R {
    let s = Scope { deferred: Mutex::new(vec![]), forked: Mutex::new(vec![]) };
    let r = op(&s);
    s.complete();
    r
}
pub fn scope_fifo<'scope, OP, R>(op: OP) -> R where OP: FnOnce(&ScopeFifo<'scope>) -> R + Send, R: Send {
    let s = ScopeFifo { inner: Scope { deferred: Mutex::new(vec![]), forked: Mutex::new(vec![]) } };
    let r = op(&s);
    s.inner.complete();
    r
}
pub fn in_place_scope_fifo<'scope, OP, R>(op: OP) -> R where OP: FnOnce(&ScopeFifo<'scope>) -> R {
    let s = ScopeFifo { inner: Scope { deferred: Mutex::new(vec![]), forked: Mutex::new(vec![]) } };
    let r = op(&s);
    s.inner.complete();
    r
}

pub fn spawn<F>(_func: F) where F: FnOnce() + Send + 'static { unimplemented!("shim: detached spawn is not modelled") }
pub fn spawn_fifo<F>(_func: F) where F: FnOnce() + Send + 'static { unimplemented!("shim: detached spawn_fifo is not modelled") }

pub struct BroadcastContext<'a> { index: usize, n: usize, _p: std::marker::PhantomData<&'a ()> }
impl<'a> BroadcastContext<'a> { pub fn index(&self) -> usize { self.index } pub fn num_threads(&self) -> usize { self.n } }
pub fn broadcast<OP, R>(_op: OP) -> Vec<R> where OP: Fn(BroadcastContext<'_>) -> R + Sync, R: Send { unimplemented!("shim: broadcast") }
pub fn spawn_broadcast<OP>(_op: OP) where OP: Fn(BroadcastContext<'_>) + Send + Sync + 'static { unimplemented!("shim: spawn_broadcast") }

#[derive(Clone, Copy, Debug, PartialEq, Eq)]
pub enum Yield { Executed, Idle }
pub fn yield_now() -> Option<Yield> { vsched::point("yield_now"); Some(Yield::Idle) }
pub fn yield_local() -> Option<Yield> { Some(Yield::Idle) }

// ------------------------------------------------------------------------------------------------ pools
#[derive(Debug)]
pub struct ThreadPoolBuildError;
impl std::fmt::Display for ThreadPoolBuildError { fn fmt(&self, f: &mut std::fmt::Formatter<'_>) -> std::fmt::Result { write!(f, "ThreadPoolBuildError") } }
impl std::error::Error for ThreadPoolBuildError {}

pub struct ThreadBuilder { index: usize }
impl ThreadBuilder { pub fn index(&self) -> usize { self.index } pub fn name(&self) -> Option<&str> { None } pub fn stack_size(&self) -> Option<usize> { None } pub fn run(self) {} }

pub struct ThreadPoolBuilder<S = DefaultSpawn> { num_threads: usize, _s: std::marker::PhantomData<S> }
pub struct DefaultSpawn;
impl Default for ThreadPoolBuilder { fn default() -> Self { ThreadPoolBuilder { num_threads: 0, _s: std::marker::PhantomData } } }
impl ThreadPoolBuilder {
    pub fn new() -> Self { Self::default() }
}
impl<S> ThreadPoolBuilder<S> {
    pub fn num_threads(mut self, n: usize) -> Self { self.num_threads = n; self }
    pub fn thread_name<F>(self, _f: F) -> Self where F: FnMut(usize) -> String + 'static { self }
    pub fn stack_size(self, _s: usize) -> Self { self }
    pub fn build(self) -> Result<ThreadPool, ThreadPoolBuildError> {
        let n = if self.num_threads == 0 { current_num_threads().max(1) } else { self.num_threads };
        Ok(ThreadPool { size: n, id: Arc::new(AtomicUsize::new(usize::MAX)) })
    }
    pub fn build_global(self) -> Result<(), ThreadPoolBuildError> { if self.num_threads > 0 { OUTSIDE_THREADS.store(self.num_threads, Ordering::Relaxed); } Ok(()) }
    pub fn panic_handler<H>(self, _h: H) -> Self where H: Fn(Box<dyn std::any::Any + Send>) + Send + Sync + 'static { self }
    pub fn start_handler<H>(self, _h: H) -> Self where H: Fn(usize) + Send + Sync + 'static { self }
    pub fn exit_handler<H>(self, _h: H) -> Self where H: Fn(usize) + Send + Sync + 'static { self }
    pub fn breadth_first(self) -> Self { self }
}

pub struct ThreadPool { size: usize, id: Arc<AtomicUsize> }
impl ThreadPool {
    pub fn install<OP, R>(&self, op: OP) -> R where OP: FnOnce() -> R + Send, R: Send { vsched::with_pool(self.size, &self.id, op) }
    pub fn current_num_threads(&self) -> usize { self.size }
    pub fn current_thread_index(&self) -> Option<usize> { vsched::current_worker().map(|(_, w, _)| w) }
    pub fn join<A, B, RA, RB>(&self, a: A, b: B) -> (RA, RB) where A: FnOnce() -> RA + Send, B: FnOnce() -> RB + Send, RA: Send, RB: Send { self.install(|| join(a, b)) }
    pub fn scope<'scope, OP, R>(&self, op: OP) -> R where OP: FnOnce(&Scope<'scope>) -> R + Send, R: Send { self.install(|| scope(op)) }
    pub fn spawn<OP>(&self, _op: OP) where OP: FnOnce() + Send + 'static { unimplemented!("shim") }
}
impl std::fmt::Debug for ThreadPool { fn fmt(&self, f: &mut std::fmt::Formatter<'_>) -> std::fmt::Result { write!(f, "ThreadPool(shim, {})", self.size) } }

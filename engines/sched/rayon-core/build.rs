fn main() {}

// Replacement for dashmap-5.5.3/src/lock.rs (verification harness only): the same lock_api RawRwLock
// interface, with every acquisition a scheduling point of the vsched scheduler and blocking modelled by it.
// Only one virtual thread runs at a time, so the state is a plain counter: 0 free, WRITER exclusive, n readers.
use core::sync::atomic::{AtomicUsize, Ordering};

pub type RwLock<T> = lock_api::RwLock<RawRwLock, T>;
pub type RwLockReadGuard<'a, T> = lock_api::RwLockReadGuard<'a, RawRwLock, T>;
pub type RwLockWriteGuard<'a, T> = lock_api::RwLockWriteGuard<'a, RawRwLock, T>;

const WRITER: usize = usize::MAX;

pub struct RawRwLock {
    state: AtomicUsize,
}

impl RawRwLock {
    #[inline]
    fn addr(&self) -> usize { self as *const _ as usize }
}

unsafe impl lock_api::RawRwLock for RawRwLock {
    #[allow(clippy::declare_interior_mutable_const)]
    const INIT: Self = Self { state: AtomicUsize::new(0) };

    type GuardMarker = lock_api::GuardNoSend;

    // After an exclusive acquisition there is a second scheduling point: a real thread can be descheduled while it
    // holds the lock, which is the only way another thread gets to block on it or to see a try_lock fail.
    fn try_lock_exclusive(&self) -> bool {
        vsched::point("try_lock_exclusive");
        let ok = self.state.compare_exchange(0, WRITER, Ordering::SeqCst, Ordering::SeqCst).is_ok();
        if ok { vsched::point("holding_exclusive"); }
        ok
    }

    fn lock_exclusive(&self) {
        vsched::point("lock_exclusive");
        loop {
            if self.state.compare_exchange(0, WRITER, Ordering::SeqCst, Ordering::SeqCst).is_ok() { vsched::point("holding_exclusive"); return; }
            vsched::block_on(self.addr());
        }
    }

    unsafe fn unlock_exclusive(&self) {
        self.state.store(0, Ordering::SeqCst);
        vsched::wake_all(self.addr());
    }

    fn try_lock_shared(&self) -> bool {
        vsched::point("try_lock_shared");
        let s = self.state.load(Ordering::SeqCst);
        if s == WRITER { return false; }
        self.state.store(s + 1, Ordering::SeqCst);
        true
    }

    fn lock_shared(&self) {
        vsched::point("lock_shared");
        loop {
            let s = self.state.load(Ordering::SeqCst);
            if s != WRITER { self.state.store(s + 1, Ordering::SeqCst); return; }
            vsched::block_on(self.addr());
        }
    }

    unsafe fn unlock_shared(&self) {
        let s = self.state.fetch_sub(1, Ordering::SeqCst);
        if s == 1 { vsched::wake_all(self.addr()); }
    }
}

unsafe impl lock_api::RawRwLockDowngrade for RawRwLock {
    unsafe fn downgrade(&self) {
        self.state.store(1, Ordering::SeqCst);
        vsched::wake_all(self.addr());
    }
}

#!/bin/sh
# Assembles the shims of the scheduler workspace:
#  - ascent-byods-rels: /repo's current sources with std::sync::{Mutex,RwLock} replaced by ascent::verif::{Mutex,RwLock}
#    (every lock acquisition of the crate becomes a scheduling point, whatever the source looks like); refreshed on every call
#  - dashmap: the registry's dashmap-5.5.3 with src/lock.rs replaced (see dashmap_lock.rs)
set -e
here="$(cd "$(dirname "$0")" && pwd)"
python3 - "$here/../../build/shims/ascent-byods-rels" <<'PY'
import os, re, sys
src = "/repo/byods/ascent-byods-rels"
out = sys.argv[1]
def put(path, content):
    os.makedirs(os.path.dirname(path), exist_ok=True)
    if os.path.exists(path) and open(path).read() == content:
        return
    open(path, "w").write(content)
def hook_locks(txt):
    # `use std::sync::{A, Mutex, B};` -> the hooked types are imported separately
    def braces(m):
        names = [n.strip() for n in m.group(1).split(",") if n.strip()]
        hooked = [n for n in names if n in ("Mutex", "RwLock")]
        rest = [n for n in names if n not in ("Mutex", "RwLock")]
        out = ""
        if rest:
            out += "use std::sync::{%s};" % ", ".join(rest)
        for h in hooked:
            out += " use ascent::verif::%s;" % h
        return out.strip()
    txt = re.sub(r"use std::sync::\{([^}]*)\};", braces, txt)
    txt = re.sub(r"\bstd::sync::(Mutex|RwLock)\b", r"ascent::verif::\1", txt)
    return txt
keep = set()
for root, dirs, files in os.walk(os.path.join(src, "src")):
    for f in files:
        p = os.path.join(root, f)
        rel = os.path.relpath(p, src)
        keep.add(rel)
        txt = open(p).read()
        put(os.path.join(out, rel), hook_locks(txt) if f.endswith(".rs") else txt)
toml = open(os.path.join(src, "Cargo.toml")).read()
toml = toml.replace("version.workspace = true", 'version = "0.0.0"')
toml = toml.replace('ascent = { workspace = true, default-features = false }', 'ascent = { path = "/repo/ascent", default-features = false, features = ["verif-hooks"] }')
toml = re.sub(r'readme = "[^"]*"\n', "", toml)
toml = re.sub(r"\n\[dev-dependencies\][^\[]*", "\n", toml)
put(os.path.join(out, "Cargo.toml"), toml)
# files that disappeared from /repo
for root, dirs, files in os.walk(os.path.join(out, "src")):
    for f in files:
        rel = os.path.relpath(os.path.join(root, f), out)
        if rel not in keep:
            os.remove(os.path.join(root, f))
PY
out="$here/../../build/shims/dashmap"
src="$(ls -d "$HOME"/.cargo/registry/src/*/dashmap-5.5.3 | head -1)"
[ -d "$src" ] || { echo "dashmap-5.5.3 not found in the cargo registry" >&2; exit 2; }
if [ -f "$out/.stamp" ] && cmp -s "$here/dashmap_lock.rs" "$out/src/lock.rs"; then exit 0; fi
rm -rf "$out"; mkdir -p "$out"
cp -r "$src/src" "$out/src"
cp "$here/dashmap_lock.rs" "$out/src/lock.rs"
python3 - "$src/Cargo.toml" "$out/Cargo.toml" "$here" <<'PY'
import sys, re
s = open(sys.argv[1]).read()
# drop test / bench / example targets (their files are not copied)
s = re.sub(r'\n\[\[(test|bench|example)\]\][^\[]*', '\n', s)
s = s.replace('[dependencies.lock_api]', '[dependencies.vsched]\npath = "%s/vsched"\n\n[dependencies.lock_api]' % sys.argv[3])
open(sys.argv[2], 'w').write(s)
PY
touch "$out/.stamp"
echo "dashmap shim assembled in $out"

#!/bin/sh
# Assembles the dashmap shim: the registry's dashmap-5.5.3 with src/lock.rs replaced (see dashmap_lock.rs).
set -e
here="$(cd "$(dirname "$0")" && pwd)"
out="$here/../../build/shims/dashmap"
src="$(ls -d "$HOME"/.cargo/registry/src/*/dashmap-5.5.3 | head -1)"
[ -d "$src" ] || { echo "dashmap-5.5.3 not found in the cargo registry" >&2; exit 2; }
if [ -f "$out/.stamp" ] && cmp -s "$here/dashmap_lock.rs" "$out/src/lock.rs"; then exit 0; fi
rm -rf "$out"; mkdir -p "$out"
cp -r "$src/src" "$out/src"
cp "$here/dashmap_lock.rs" "$out/src/lock.rs"
python3 - "$src/Cargo.toml" "$out/Cargo.toml" "$here" <<'PY'
import sys, re
s = open(sys.argv[1]).read()
# drop test / bench / example targets (their files are not copied)
s = re.sub(r'\n\[\[(test|bench|example)\]\][^\[]*', '\n', s)
s = s.replace('[dependencies.lock_api]', '[dependencies.vsched]\npath = "%s/vsched"\n\n[dependencies.lock_api]' % sys.argv[3])
open(sys.argv[2], 'w').write(s)
PY
touch "$out/.stamp"
echo "dashmap shim assembled in $out"

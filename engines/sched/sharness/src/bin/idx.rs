//! C19 (concurrent part): 2-3 virtual threads x 1-2 write operations each on one shared concurrent index,
//! keys forced to collide; every interleaving; then freeze and read everything back.
use ascent::internal::{CLatIndex, CRelFullIndex, CRelFullIndexWrite, CRelIndex, CRelIndexRead, CRelIndexReadAll, CRelIndexWrite, CRelNoIndex, Freezable, RelIndexRead, RelIndexReadAll};
use ascent::rayon::iter::ParallelIterator;
use sharness::{explore_harness, install_hooks, Report};
use std::collections::BTreeMap;

type K = u32;

fn keys() -> (K, K, K) {
    // two keys in one dashmap shard and one in another (the shard count is fixed by the first use in this process)
    let shards = ascent::internal::shards_count();
    let dm: ascent::dashmap::DashMap<K, (), std::hash::BuildHasherDefault<rustc_hash::FxHasher>> = ascent::dashmap::DashMap::with_hasher_and_shard_amount(Default::default(), shards);
    let s0 = dm.determine_map(&1);
    let same = (2..10_000u32).find(|k| dm.determine_map(k) == s0).unwrap();
    let diff = (2..10_000u32).find(|k| dm.determine_map(k) != s0).unwrap();
    (1, same, diff)
}

fn dump_multi(m: BTreeMap<K, Vec<usize>>) -> String { format!("{:?}", m.into_iter().map(|(k, mut v)| { v.sort(); (k, v) }).collect::<Vec<_>>()) }

fn main() {
    let start = std::time::Instant::now();
    std::panic::set_hook(Box::new(|_| {}));
    install_hooks();
    if let Some((h, w, sched)) = sharness::replay_request() {
        std::env::set_var("VSCHED_ONLY", &h);
        std::env::set_var("VSCHED_REPLAY_WORKERS", w.to_string());
        std::env::set_var("VSCHED_REPLAY_SCHEDULE", sched.iter().map(|c| c.to_string()).collect::<Vec<_>>().join(","));
    }
    let prop = std::env::var("VSCHED_PROP").unwrap_or_else(|_| "C19".into());
    let mut rep = Report::new(&prop, "vsched-idx");
    let only = std::env::var("VSCHED_ONLY").ok().filter(|o| o != "ALL");
    let want = |n: &str| only.as_ref().map_or(true, |o| o == n);
    // all interleavings: the bodies are tiny, so the deviation bound is set above what they can use
    let k = 12;
    let cap = 3_000_000;
    let (k1, k_same, k_diff) = keys();
    rep.extra("keys", format!("{} {} {}", k1, k_same, k_diff));
    use ascent::rayon::join;

    for (label, ka, kb) in [("same-shard", k1, k_same), ("different-shards", k1, k_diff), ("one-key", k1, k1)] {
        // CRelIndex: two threads, two inserts each
        let name = format!("CRelIndex-2x2-{}", label);
        if want(&name) {
            let body = move || -> String {
                let mut ind: CRelIndex<K, usize> = Default::default();
                join(|| { CRelIndexWrite::index_insert(&ind, ka, 1); CRelIndexWrite::index_insert(&ind, kb, 2); },
                     || { CRelIndexWrite::index_insert(&ind, kb, 3); CRelIndexWrite::index_insert(&ind, ka, 4); });
                vsched::inline_only(true);
                vsched::inline_only(true);
            ind.freeze();
                let mut m: BTreeMap<K, Vec<usize>> = BTreeMap::new();
                for (k, vs) in ind.iter_all() { m.entry(*k).or_default().extend(vs.cloned()); }
                let c: Vec<(K, Vec<usize>)> = ind.c_iter_all().map(|(k, vs)| (*k, vs.cloned().collect::<Vec<usize>>())).collect();
                let mut m2: BTreeMap<K, Vec<usize>> = BTreeMap::new();
                for (k, vs) in c { m2.entry(k).or_default().extend(vs); }
                let g: Vec<Option<Vec<usize>>> = [ka, kb].iter().map(|k| ind.index_get(k).map(|it| { let mut v: Vec<usize> = it.cloned().collect(); v.sort(); v })).collect();
                let cg: Vec<Option<Vec<usize>>> = [ka, kb].iter().map(|k| ind.c_index_get(k).map(|it| { let mut v: Vec<usize> = it.cloned().collect(); v.sort(); v })).collect();
                format!("iter_all={} c_iter_all={} get={:?} c_get={:?}", dump_multi(m), dump_multi(m2), g, cg)
            };
            let mut want_m: BTreeMap<K, Vec<usize>> = BTreeMap::new();
            for (k, v) in [(ka, 1), (kb, 2), (kb, 3), (ka, 4)] { want_m.entry(k).or_default().push(v); }
            let g: Vec<Option<Vec<usize>>> = [ka, kb].iter().map(|k| want_m.get(k).map(|v| { let mut v = v.clone(); v.sort(); v })).collect();
            let expected = format!("iter_all={} c_iter_all={} get={:?} c_get={:?}", dump_multi(want_m.clone()), dump_multi(want_m.clone()), g, g);
            explore_harness(&mut rep, &prop, &name, &[2], k, cap, &body, &expected);
        }
        // CLatIndex: set semantics, both threads insert the same value under a key
        let name = format!("CLatIndex-2x2-{}", label);
        if want(&name) {
            let body = move || -> String {
                let mut ind: CLatIndex<K, usize> = Default::default();
                join(|| { CRelIndexWrite::index_insert(&ind, ka, 1); CRelIndexWrite::index_insert(&ind, kb, 2); },
                     || { CRelIndexWrite::index_insert(&ind, kb, 2); CRelIndexWrite::index_insert(&ind, ka, 4); });
                vsched::inline_only(true);
                vsched::inline_only(true);
            ind.freeze();
                let mut m: BTreeMap<K, Vec<usize>> = BTreeMap::new();
                for (k, vs) in ind.iter_all() { m.entry(*k).or_default().extend(vs); }
                dump_multi(m)
            };
            let mut want_m: BTreeMap<K, Vec<usize>> = BTreeMap::new();
            for (k, v) in [(ka, 1), (kb, 2), (ka, 4)] { let e = want_m.entry(k).or_default(); if !e.contains(&v) { e.push(v); } }
            explore_harness(&mut rep, &prop, &name, &[2], k, cap, &body, &dump_multi(want_m));
        }
        // CRelFullIndex: insert-if-absent races: exactly one winner per key
        let name = format!("CRelFullIndex-ina-2x2-{}", label);
        if want(&name) && ka != kb {
            let body = move || -> String {
                let mut ind: CRelFullIndex<K, usize> = Default::default();
                let (a, b) = join(|| (CRelFullIndexWrite::insert_if_not_present(&ind, &ka, 10), CRelFullIndexWrite::insert_if_not_present(&ind, &kb, 11)),
                                  || (CRelFullIndexWrite::insert_if_not_present(&ind, &kb, 20), CRelFullIndexWrite::insert_if_not_present(&ind, &ka, 21)));
                vsched::inline_only(true);
                vsched::inline_only(true);
            ind.freeze();
                let wins_a = a.0 as u8 + b.1 as u8;
                let wins_b = if ka == kb { 1 } else { a.1 as u8 + b.0 as u8 };
                let total_true = a.0 as u8 + a.1 as u8 + b.0 as u8 + b.1 as u8;
                let mut keys: Vec<K> = ind.iter_all().map(|(k, _)| *k).collect(); keys.sort();
                let vals_ok = ind.iter_all().all(|(k, mut v)| { let v = v.next().unwrap(); if *k == ka && ka != kb { v == 10 || v == 21 } else if *k == kb && ka != kb { v == 11 || v == 20 } else { [10, 11, 20, 21].contains(&v) } });
                format!("winners(ka)={} winners(kb)={} trues={} keys={:?} vals_ok={} len={}", wins_a.min(if ka == kb { 1 } else { 9 }), wins_b, if ka == kb { 1 } else { total_true }, keys, vals_ok, ind.exact_len())
            };
            let mut ks = vec![ka, kb]; ks.sort(); ks.dedup();
            let expected = format!("winners(ka)=1 winners(kb)=1 trues={} keys={:?} vals_ok=true len={}", if ka == kb { 1 } else { 2 }, ks, ks.len());
            explore_harness(&mut rep, &prop, &name, &[2], k, cap, &body, &expected);
        }
    }
    // a present key is read (get_cloned, the look-up of the parallel lattice insertion) while another thread inserts another
    // key: the reader must see the value whatever the writer is doing to the shard
    for (label, ka, kb) in [("same-shard", k1, k_same), ("different-shards", k1, k_diff)] {
        let name = format!("CRelFullIndex-read-vs-insert-{}", label);
        if want(&name) {
            let body = move || -> String {
                let ind: CRelFullIndex<K, usize> = Default::default();
                CRelFullIndexWrite::insert_if_not_present(&ind, &ka, 7);
                let (r, w) = join(|| (ind.get_cloned(&ka), ind.get_cloned(&ka)), || CRelFullIndexWrite::insert_if_not_present(&ind, &kb, 8));
                format!("reads={:?} inserted={}", r, w)
            };
            explore_harness(&mut rep, &prop, &name, &[2], k, cap, &body, "reads=(Some(7), Some(7)) inserted=true");
        }
    }
    // one key, all four insert-if-absent calls race on it: exactly one true overall
    if want("CRelFullIndex-ina-one-key-count") {
        let body = move || -> String {
            let mut ind: CRelFullIndex<K, usize> = Default::default();
            let (a, b) = join(|| (CRelFullIndexWrite::insert_if_not_present(&ind, &k1, 10), CRelFullIndexWrite::insert_if_not_present(&ind, &k1, 11)),
                              || (CRelFullIndexWrite::insert_if_not_present(&ind, &k1, 20), CRelFullIndexWrite::insert_if_not_present(&ind, &k1, 21)));
            vsched::inline_only(true);
            ind.freeze();
            format!("trues={} len={}", a.0 as u8 + a.1 as u8 + b.0 as u8 + b.1 as u8, ind.exact_len())
        };
        explore_harness(&mut rep, &prop, "CRelFullIndex-ina-one-key-count", &[2], k, cap, &body, "trues=1 len=1");
    }
    // three threads, one insert each, one key
    if want("CRelIndex-3x1-one-key") {
        let body = move || -> String {
            let mut ind: CRelIndex<K, usize> = Default::default();
            join(|| CRelIndexWrite::index_insert(&ind, k1, 1), || { join(|| CRelIndexWrite::index_insert(&ind, k1, 2), || CRelIndexWrite::index_insert(&ind, k1, 3)); });
            vsched::inline_only(true);
            ind.freeze();
            let mut v: Vec<usize> = ind.index_get(&k1).map(|it| it.cloned().collect()).unwrap_or_default(); v.sort();
            format!("{:?}", v)
        };
        explore_harness(&mut rep, &prop, "CRelIndex-3x1-one-key", &[3], k, cap, &body, "[1, 2, 3]");
    }
    // CRelNoIndex: per-thread shards; inserts from different and from the same worker index
    for n in [2usize, 3] {
        let name = format!("CRelNoIndex-3x1-N{}", n);
        if want(&name) {
            let body = move || -> String {
                let mut ind: CRelNoIndex<usize> = Default::default();
                join(|| CRelIndexWrite::index_insert(&ind, (), 1), || { join(|| CRelIndexWrite::index_insert(&ind, (), 2), || CRelIndexWrite::index_insert(&ind, (), 3)); });
                vsched::inline_only(true);
                vsched::inline_only(true);
            ind.freeze();
                let mut v: Vec<usize> = ind.index_get(&()).map(|it| it.cloned().collect()).unwrap_or_default(); v.sort();
                let mut c: Vec<usize> = ind.c_index_get(&()).map(|it| it.cloned().collect()).unwrap_or_default(); c.sort();
                format!("{:?} {:?} shards={}", v, c, ind.vec.len())
            };
            explore_harness(&mut rep, &prop, &name, &[n], k, cap, &body, &format!("[1, 2, 3] [1, 2, 3] shards={}", n));
        }
    }
    rep.rule = "every interleaving of 2-3 virtual threads x 1-2 write operations on one shared concurrent index (keys in the same dashmap shard, in different shards, identical); afterwards the index is frozen and read through index_get / iter_all and their c_ variants: every insert retained, insert-if-absent true for exactly one racer per key".into();
    rep.finish(start)
}

//! Engine self-test: a lost-update bug in a toy counter must be found at exactly 2 deviations
//! (one fork + one preemption), never below, and schedules must replay deterministically.
use std::sync::atomic::{AtomicUsize, Ordering};
use vsched::{explore, Config};

fn body() -> usize {
    let n = AtomicUsize::new(0);
    let inc = || { let v = n.load(Ordering::SeqCst); vsched::point("between-load-and-store"); n.store(v + 1, Ordering::SeqCst); };
    match vsched::maybe_fork(|_| inc(), "join") { Ok(h) => { inc(); h.join(); } Err(f) => { inc(); f(false); } }
    n.load(Ordering::SeqCst)
}

fn main() {
    let mut found_at = None;
    for k in 0..=3u32 {
        let cfg = Config { workers: 2, max_deviations: k, ..Default::default() };
        let mut outcomes = std::collections::BTreeSet::new();
        let st = explore(&cfg, &body, &mut |_c, ex| { outcomes.insert(format!("{:?}", ex.result)); true }).expect("deterministic");
        println!("k={} executions={} outcomes={:?} replays_checked={}", k, st.executions, outcomes, st.replays_checked);
        if outcomes.len() > 1 && found_at.is_none() { found_at = Some(k); }
    }
    if found_at != Some(2) { eprintln!("SELFTEST FAILED: lost update found at k={:?}, expected exactly 2", found_at); std::process::exit(2); }
    // deadlock detection: two threads taking two mutexes in opposite order
    let dl = || {
        let (a, b) = (1usize, 2usize);
        let t = |x: usize, y: usize| { vsched::mutex_acquire(x); vsched::mutex_acquire(y); vsched::mutex_release(y); vsched::mutex_release(x); };
        match vsched::maybe_fork(|_| t(b, a), "join") { Ok(h) => { t(a, b); h.join(); } Err(f) => { t(a, b); f(false); } }
        0usize
    };
    let cfg = Config { workers: 2, max_deviations: 3, ..Default::default() };
    let mut deadlocks = 0;
    let st = explore(&cfg, &dl, &mut |_c, ex| { if matches!(ex.result, Err(vsched::Failure::Deadlock(_))) { deadlocks += 1; } true }).expect("deterministic");
    println!("deadlock probe: executions={} deadlocks={}", st.executions, deadlocks);
    if deadlocks == 0 { eprintln!("SELFTEST FAILED: lock-order deadlock not found"); std::process::exit(2); }
    println!("vsched selftest ok");
}

//! C20: a parallel program computes the same result whatever rayon pool is current at construction and at
//! each run; several instances running at the same time do not influence each other.
//! One configuration per process (the dashmap shard count is cached process-wide at first use).
use ascent::rayon::ThreadPoolBuilder;
use ascent::{ascent, ascent_par, Dual};
use sharness::{explore_harness, install_hooks, Report};

macro_rules! progs {
    ($m:ident { $($body:tt)* }) => {
        mod $m {
            #![allow(warnings)]
            pub mod ser { use ascent::*; ascent! { pub struct P; $($body)* } }
            pub mod par { use ascent::*; ascent_par! { pub struct P; $($body)* } }
        }
    };
}
fn fmt_rel<T: std::fmt::Debug + Ord + Clone>(name: &str, rows: Vec<T>) -> String {
    let n = rows.len(); let mut d = rows.clone(); d.sort(); d.dedup();
    format!("{}: rows={} distinct={:?}; ", name, n, d)
}

// transitive closure
progs!(tc { relation edge(i32, i32); relation path(i32, i32); path(x, y) <-- edge(x, y); path(x, z) <-- edge(x, y), path(y, z); });
// two strata: the second one creates its indices after the first one has run
progs!(two { relation edge(i32, i32); relation path(i32, i32); relation far(i32); relation cnt(usize);
    path(x, y) <-- edge(x, y); path(x, z) <-- edge(x, y), path(y, z);
    far(y) <-- path(0, y), !edge(0, y);
    cnt(n) <-- agg n = ::ascent::aggregators::count() in far(_); });
// un-indexed scans: both clauses of the cross product are read without a key
progs!(scan { relation a(i32); relation b(i32); relation c(i32, i32); relation d(i32);
    c(x, y) <-- a(x), b(y);
    d(x) <-- c(x, _);
    a(y) <-- d(x), b(y), if *x == 0 && *y < 2; });
// lattice
progs!(lat { relation e(i32, i32, u32); lattice sp(i32, Dual<u32>); sp(y, Dual(*w)) <-- e(0, y, w); sp(z, Dual(d.0 + w)) <-- sp(y, d), e(y, z, w); });
// initialised relation: indices are filled while the value is constructed
progs!(init { relation edge(i32, i32) = [(0, 1), (1, 2), (2, 0)].into_iter().collect(); relation seed(i32); relation reach(i32);
    reach(x) <-- seed(x); reach(y) <-- reach(x), edge(x, y); });

#[derive(Clone, Copy, Debug, PartialEq)]
enum PoolSel { Global, Size(usize), Nested(usize, usize) }
fn parse_sel(s: &str) -> PoolSel {
    if s == "g" { PoolSel::Global } else if let Some((a, b)) = s.split_once("in") { PoolSel::Nested(a.parse().unwrap(), b.parse().unwrap()) } else { PoolSel::Size(s.parse().unwrap()) }
}
fn in_pool<R: Send>(sel: PoolSel, f: impl FnOnce() -> R + Send) -> R {
    match sel {
        PoolSel::Global => f(),
        PoolSel::Size(n) => ThreadPoolBuilder::new().num_threads(n).build().unwrap().install(f),
        PoolSel::Nested(inner, outer) => { let o = ThreadPoolBuilder::new().num_threads(outer).build().unwrap(); let i = ThreadPoolBuilder::new().num_threads(inner).build().unwrap(); o.install(|| i.install(f)) }
    }
}

fn main() {
    let start = std::time::Instant::now();
    std::panic::set_hook(Box::new(|_| {}));
    install_hooks();
    if let Some((h, w, sched)) = sharness::replay_request() {
        std::env::set_var("VSCHED_ONLY", &h);
        std::env::set_var("VSCHED_REPLAY_WORKERS", w.to_string());
        std::env::set_var("VSCHED_REPLAY_SCHEDULE", sched.iter().map(|c| c.to_string()).collect::<Vec<_>>().join(","));
    }
    let prop = "C20";
    let thorough = std::env::var("VERIF_TIER").map_or(false, |t| t == "thorough");
    let mut rep = Report::new(prop, "vsched-pools");
    // configuration: "<prog>:<construct>:<run1>:<run2>[:<run3>]"  or  "instances"
    let cfgname = std::env::var("VSCHED_ONLY").expect("VSCHED_ONLY=<configuration>");
    let k = if thorough { 3 } else { 2 };
    let cap = if thorough { 400_000 } else { 40_000 };
    if cfgname == "instances" || cfgname == "instances-irp" {
        // three program values at once: two of the same parallel type with different inputs, one serial one
        let e1 = [(0, 1), (0, 2), (1, 3), (2, 3), (3, 4), (4, 5)];
        let e2 = [(5, 6), (6, 5)];
        let alone = |edges: &[(i32, i32)]| { let mut p = tc::ser::P::default(); for t in edges { p.edge.push(*t); } p.run(); fmt_rel("path", p.path.clone()) };
        let expected = format!("{}|{}|{}", alone(&e1), alone(&e2), alone(&e1));
        let body = move || -> String {
            let (mut p1, mut p2, mut p3) = (tc::par::P::default(), tc::par::P::default(), tc::ser::P::default());
            for t in e1 { p1.edge.push(t); p3.edge.push(t); }
            for t in e2 { p2.edge.push(t); }
            ascent::rayon::join(|| p1.run(), || { ascent::rayon::join(|| p2.run(), || p3.run()); });
            format!("{}|{}|{}", fmt_rel("path", p1.path.iter().map(|t| *t).collect::<Vec<_>>()), fmt_rel("path", p2.path.iter().map(|t| *t).collect::<Vec<_>>()), fmt_rel("path", p3.path.clone()))
        };
        explore_harness(&mut rep, prop, &cfgname, &[3], k, cap, &body, &expected);
    } else if cfgname.starts_with("instances-pools") {
        // two parallel program values at the same time in pools of different sizes: a three-strata program running in a
        // small pool while another value is constructed and run in a larger pool (and the other way round)
        let (small, large) = if cfgname.ends_with("-rev") { (3, 1) } else { (1, 3) };
        let e1 = [(0, 1), (0, 2), (1, 3), (2, 3), (3, 4)];
        let e2 = [(5, 6), (6, 5)];
        let expected = {
            let mut p = two::ser::P::default(); for t in e1 { p.edge.push(t); } p.run();
            let mut q = tc::ser::P::default(); for t in e2 { q.edge.push(t); } q.run();
            format!("{}{}{}|{}", fmt_rel("path", p.path.clone()), fmt_rel("far", p.far.clone()), fmt_rel("cnt", p.cnt.clone()), fmt_rel("path", q.path.clone()))
        };
        let body = move || -> String {
            let mut p1 = two::par::P::default();
            for t in e1 { p1.edge.push(t); }
            let (_, r2) = ascent::rayon::join(
                || in_pool(PoolSel::Size(small), || p1.run()),
                || in_pool(PoolSel::Size(large), || { let mut p2 = tc::par::P::default(); for t in e2 { p2.edge.push(t); } p2.run(); fmt_rel("path", p2.path.iter().map(|t| *t).collect::<Vec<_>>()) }));
            format!("{}{}{}|{}", fmt_rel("path", p1.path.iter().map(|t| *t).collect::<Vec<_>>()), fmt_rel("far", p1.far.iter().map(|t| *t).collect::<Vec<_>>()), fmt_rel("cnt", p1.cnt.iter().map(|t| *t).collect::<Vec<_>>()), r2)
        };
        // a new process per execution: the shard count is process-wide state that an earlier execution would fix
        sharness::explore_harness_opt(&mut rep, prop, &cfgname, &[2], k, cap, &body, &expected, true);
    } else {
        let parts: Vec<&str> = cfgname.split(':').collect();
        let (prog, construct) = (parts[0], parse_sel(parts[1]));
        let runs: Vec<PoolSel> = parts[2..].iter().map(|s| parse_sel(s)).collect();
        macro_rules! cfg_body {
            ($m:ident, |$p:ident| $load0:block, |$p2:ident, $i:ident| $add:block, |$q:ident| $dump_par:block, |$qs:ident| $dump_ser:block) => {{
                let expected = { let mut $p = $m::ser::P::default(); $load0; for $i in 0..runs.len() { let $p2 = &mut $p; $add; $p.run(); } let $qs = &$p; $dump_ser };
                let runs2 = runs.clone();
                let body = move || -> String {
                    let mut $p = in_pool(construct, || { let mut $p = $m::par::P::default(); $load0; $p });
                    for ($i, sel) in runs2.iter().enumerate() { { let $p2 = &mut $p; $add; } in_pool(*sel, || $p.run()); }
                    let $q = &$p; $dump_par
                };
                explore_harness(&mut rep, prop, &cfgname, &[2], k, cap, &body, &expected);
            }};
        }
        match prog {
            "tc" => cfg_body!(tc, |p| { for t in [(0, 1), (0, 2), (1, 3), (2, 3)] { p.edge.push(t); } }, |p, i| { if i > 0 { p.edge.push((3, 4 + i as i32)); } },
                |q| { fmt_rel("path", q.path.iter().map(|t| *t).collect::<Vec<_>>()) }, |q| { fmt_rel("path", q.path.clone()) }),
            "scan" => cfg_body!(scan, |p| { for x in [0, 5] { p.a.push((x,)); } for y in [1, 2, 7] { p.b.push((y,)); } }, |p, i| { if i > 0 { p.b.push((10 + i as i32,)); p.a.push((20 + i as i32,)); } },
                |q| { fmt_rel("a", q.a.iter().map(|t| *t).collect::<Vec<_>>()) + &fmt_rel("c", q.c.iter().map(|t| *t).collect::<Vec<_>>()) + &fmt_rel("d", q.d.iter().map(|t| *t).collect::<Vec<_>>()) },
                |q| { fmt_rel("a", q.a.clone()) + &fmt_rel("c", q.c.clone()) + &fmt_rel("d", q.d.clone()) }),
            "lat" => cfg_body!(lat, |p| { for t in [(0, 1, 5u32), (0, 1, 3), (0, 2, 1), (2, 1, 1)] { p.e.push(t); } }, |p, i| { if i > 0 { p.e.push((1, 3 + i as i32, 2)); } },
                |q| { fmt_rel("sp", q.sp.iter().map(|t| { let t = t.read().unwrap(); (t.0, t.1 .0) }).collect::<Vec<_>>()) }, |q| { fmt_rel("sp", q.sp.iter().map(|t| (t.0, t.1 .0)).collect::<Vec<_>>()) }),
            "init" => cfg_body!(init, |p| { p.seed.push((0,)); }, |p, i| { if i > 0 { p.edge.push((2, 7 + i as i32)); } },
                |q| { fmt_rel("reach", q.reach.iter().map(|t| *t).collect::<Vec<_>>()) }, |q| { fmt_rel("reach", q.reach.clone()) }),
            other => { rep.machinery_errors.push(format!("unknown program {}", other)); }
        }
    }
    rep.extra("shards_count", ascent::internal::shards_count());
    rep.rule = "one pool configuration per process: pool current at construction x pool current at each run (global of 2, sizes 1-3, nested), facts added between runs; every execution with at most k deviations; result must equal the serial program's on the same inputs; plus three program values (two parallel of one type, one serial) running at the same time in one pool, and two parallel values running at the same time in pools of different sizes".into();
    rep.finish(start)
}

//! C02 / C05 (parallel part): real `ascent_par!` programs with a forced collision, explored under vsched.
use ascent::{ascent, ascent_par, Dual};
use sharness::{explore_harness, install_hooks, Report};

macro_rules! progs {
    ($m:ident { $($body:tt)* }) => {
        mod $m {
            #![allow(warnings)]
            pub mod ser { use ascent::*; ascent! { pub struct P; $($body)* } }
            pub mod par { use ascent::*; ascent_par! { pub struct P; $($body)* } }
            pub mod irp { use ascent::*; ascent_par! { #![inter_rule_parallelism] pub struct P; $($body)* } }
        }
    };
}

fn fmt_rel<T: std::fmt::Debug + Ord + Clone>(name: &str, rows: Vec<T>) -> String {
    let n = rows.len();
    let mut d = rows.clone(); d.sort(); d.dedup();
    format!("{}: rows={} distinct={:?}; ", name, n, d)
}

// H1: diamond transitive closure — two workers derive path(0,3)
progs!(h1 {
    relation edge(i32, i32);
    relation path(i32, i32);
    path(x, y) <-- edge(x, y);
    path(x, z) <-- edge(x, y), path(y, z);
});
// H2: two rules, one head, overlapping inputs
progs!(h2 {
    relation a(i32);
    relation b(i32);
    relation p(i32);
    p(x) <-- a(x);
    p(x) <-- b(x);
});
// H3: lattice min, several facts improve the same key (first insert + join paths), recursion through the lattice
progs!(h3 {
    relation e(i32, i32, u32);
    lattice sp(i32, Dual<u32>);
    sp(y, Dual(*w)) <-- e(0, y, w);
    sp(z, Dual(d.0 + w)) <-- sp(y, d), e(y, z, w);
});
// H4: lattice, then an aggregate in a later stratum
progs!(h4 {
    relation e(i32, u32);
    lattice m(i32, u32);
    relation c(usize);
    m(x, *w) <-- e(x, w);
    c(n) <-- agg n = ascent::aggregators::count() in m(_, _);
});
// H5: negation over a relation derived in parallel
progs!(h5 {
    relation a(i32);
    relation e(i32, i32);
    relation r(i32);
    relation nr(i32);
    r(y) <-- a(x), e(x, y);
    r(z) <-- r(y), e(y, z);
    nr(x) <-- a(x), !r(x);
});
// H7: three-way join (third clause evaluated serially inside a parallel loop)
progs!(h7 {
    relation e(i32, i32);
    relation t(i32, i32);
    t(x, w) <-- e(x, y), e(y, z), e(z, w);
    t(x, z) <-- t(x, y), t(y, z);
});

// H8: two lattices feeding each other in one stratum: with inter-rule parallelism each rule reads rows of the
// lattice the other one writes
progs!(h8 {
    relation e(i32, i32, u32);
    lattice la(i32, Dual<u32>);
    lattice lb(i32, Dual<u32>);
    la(0, Dual(0)) <-- e(0, _, _);
    lb(0, Dual(1)) <-- e(0, _, _);
    la(y, Dual(d.0 + w)) <-- lb(x, d), e(x, y, w);
    lb(y, Dual(d.0 + w)) <-- la(x, d), e(x, y, w);
});
// H11: parallel eqrel, forced collision inside one parallel loop: with two workers the slice [(0,1), (1,5) | (2,3), (2,0)]
// is split in the middle: one worker links 1 to the new element 5 while the other merges the class of 0 and 1 away
progs!(h11 {
    relation s(i32, i32);
    #[ds(ascent_byods_rels::eqrel)] relation r(i32, i32);
    relation o(i32, i32);
    r(x, y) <-- s(x, y);
    o(x, y) <-- r(x, y);
});
// H12: two lattice keys in one dashmap shard but behind different insertion mutexes: while one worker holds the shard
// lock for the first insert of one key, the other worker looks the other (present) key up
progs!(h12 {
    relation e(i32, u32);
    lattice m(i32, u32);
    m(x, *w) <-- e(x, w);
});
/// (ka, kb, kc): ka and kb share a dashmap shard of the lattice key index but not an insertion mutex; kc is elsewhere
fn colliding_lattice_keys() -> (i32, i32, i32) {
    let shards = ascent::internal::shards_count();
    let dm: ascent::dashmap::DashMap<(i32,), (), std::hash::BuildHasherDefault<rustc_hash::FxHasher>> = ascent::dashmap::DashMap::with_hasher_and_shard_amount(Default::default(), shards);
    let (ka, sa, ha) = (1, dm.determine_map(&(1,)), dm.hash_usize(&(1,)));
    let kb = (2..100_000).find(|k| dm.determine_map(&(*k,)) == sa && dm.hash_usize(&(*k,)) % shards != ha % shards).expect("no colliding key");
    let kc = (2..100_000).find(|k| dm.determine_map(&(*k,)) != sa).expect("no key in another shard");
    (ka, kb, kc)
}
// H10: the lattice is read by the third body clause and written by the head: the row just read can be the row updated
// (self loop) or a row another worker is reading
progs!(h10 {
    relation s(i32, u32);
    relation e(i32, i32);
    lattice sp(i32, Dual<u32>);
    sp(x, Dual(*w)) <-- s(x, w);
    sp(z, Dual(d.0 + 1)) <-- e(x, y), e(y, z), sp(x, d);
});
// H6: binary eqrel in parallel: two workers insert pairs that join classes
progs!(h6 {
    relation s(i32, i32);
    #[ds(ascent_byods_rels::eqrel)] relation r(i32, i32);
    relation o(i32, i32);
    relation step(i32);
    r(x, y) <-- s(x, y);
    r(y, z) <-- s(x, y), s(x, z);
    o(x, y) <-- r(x, y);
});

macro_rules! run_h {
    ($rep:expr, $prop:expr, $name:expr, $m:ident, $workers:expr, $k:expr, $cap:expr, |$p:ident| $load:block, |$q:ident| $dump:block) => {{
        let expected = { let mut $p = $m::ser::P::default(); $load; $p.run(); let $q = &$p; $dump };
        let only = std::env::var("VSCHED_ONLY").ok();
        for (variant, label) in [(0, "par"), (1, "par+irp")] {
            let hname = format!("{}[{}]", $name, label);
            if only.as_ref().map_or(false, |o| *o != hname) { continue; }
            let body = move || -> String {
                if variant == 0 { let mut $p = $m::par::P::default(); $load; $p.run(); let $q = &$p; $dump }
                else { let mut $p = $m::irp::P::default(); $load; $p.run(); let $q = &$p; $dump }
            };
            explore_harness($rep, $prop, &hname, $workers, $k, $cap, &body, &expected);
        }
    }};
}

fn main() {
    let start = std::time::Instant::now();
    std::panic::set_hook(Box::new(|_| {}));
    install_hooks();
    if let Some((h, w, sched)) = sharness::replay_request() {
        // replay = explore with the recorded schedule as the only execution
        std::env::set_var("VSCHED_ONLY", &h);
        std::env::set_var("VSCHED_REPLAY_WORKERS", w.to_string());
        std::env::set_var("VSCHED_REPLAY_SCHEDULE", sched.iter().map(|c| c.to_string()).collect::<Vec<_>>().join(","));
    }
    let prop = std::env::var("VSCHED_PROP").unwrap_or_else(|_| "C02".into());
    let thorough = std::env::var("VERIF_TIER").map_or(false, |t| t == "thorough");
    let mut rep = Report::new(&prop, "vsched-par");
    let (k, klat) = if thorough { (4, 3) } else { (3, 2) };
    let cap: u64 = if thorough { 2_000_000 } else { 150_000 };
    let w: &[usize] = &[1, 2, 3];

    run_h!(&mut rep, &prop, "H1-diamond-tc", h1, w, k, cap, |p| { for t in [(0, 1), (0, 2), (1, 3), (2, 3)] { p.edge.push(t); } },
        |q| { fmt_rel("path", q.path.iter().map(|t| t.clone()).collect::<Vec<_>>()) });
    run_h!(&mut rep, &prop, "H2-two-rules-one-head", h2, w, k, cap, |p| { for x in [0, 1] { p.a.push((x,)); } for x in [1, 2] { p.b.push((x,)); } },
        |q| { fmt_rel("p", q.p.iter().map(|t| t.clone()).collect::<Vec<_>>()) });
    run_h!(&mut rep, &prop, "H5-negation", h5, w, k, cap, |p| { for x in [0, 1, 2] { p.a.push((x,)); } for t in [(0, 1), (1, 1), (0, 3)] { p.e.push(t); } },
        |q| { fmt_rel("r", q.r.iter().map(|t| t.clone()).collect::<Vec<_>>()) + &fmt_rel("nr", q.nr.iter().map(|t| t.clone()).collect::<Vec<_>>()) });
    run_h!(&mut rep, &prop, "H7-three-way-join", h7, w, k, cap, |p| { for t in [(0, 1), (1, 2), (2, 0)] { p.e.push(t); } },
        |q| { fmt_rel("t", q.t.iter().map(|t| t.clone()).collect::<Vec<_>>()) });

    // lattice harnesses: rows live behind RwLocks in the parallel macros
    {
        let load = [(0, 1, 5u32), (0, 1, 3), (0, 2, 1), (2, 1, 1)];
        let expected = { let mut p = h3::ser::P::default(); for t in load { p.e.push(t); } p.run(); fmt_rel("sp", p.sp.iter().map(|t| (t.0, t.1 .0)).collect::<Vec<_>>()) };
        for (variant, label) in [(0, "par"), (1, "par+irp")] {
            let hname = format!("H3-lattice-min[{}]", label);
            if std::env::var("VSCHED_ONLY").ok().map_or(false, |o| o != hname) { continue; }
            let body = move || -> String {
                if variant == 0 { let mut p = h3::par::P::default(); for t in load { p.e.push(t); } p.run(); fmt_rel("sp", p.sp.iter().map(|t| { let t = t.read().unwrap(); (t.0, t.1 .0) }).collect::<Vec<_>>()) }
                else { let mut p = h3::irp::P::default(); for t in load { p.e.push(t); } p.run(); fmt_rel("sp", p.sp.iter().map(|t| { let t = t.read().unwrap(); (t.0, t.1 .0) }).collect::<Vec<_>>()) }
            };
            explore_harness(&mut rep, &prop, &hname, w, klat, cap, &body, &expected);
        }
    }
    {
        let load = [(0, 1u32), (0, 2), (1, 1), (0, 3)];
        let expected = { let mut p = h4::ser::P::default(); for t in load { p.e.push(t); } p.run(); fmt_rel("m", p.m.iter().map(|t| t.clone()).collect::<Vec<_>>()) + &fmt_rel("c", p.c.iter().map(|t| t.clone()).collect::<Vec<_>>()) };
        for (variant, label) in [(0, "par"), (1, "par+irp")] {
            let hname = format!("H4-lattice-then-aggregate[{}]", label);
            if std::env::var("VSCHED_ONLY").ok().map_or(false, |o| o != hname) { continue; }
            let body = move || -> String {
                if variant == 0 { let mut p = h4::par::P::default(); for t in load { p.e.push(t); } p.run(); fmt_rel("m", p.m.iter().map(|t| t.read().unwrap().clone()).collect::<Vec<_>>()) + &fmt_rel("c", p.c.iter().map(|t| t.clone()).collect::<Vec<_>>()) }
                else { let mut p = h4::irp::P::default(); for t in load { p.e.push(t); } p.run(); fmt_rel("m", p.m.iter().map(|t| t.read().unwrap().clone()).collect::<Vec<_>>()) + &fmt_rel("c", p.c.iter().map(|t| t.clone()).collect::<Vec<_>>()) }
            };
            explore_harness(&mut rep, &prop, &hname, w, klat, cap, &body, &expected);
        }
    }
    {
        let load = [(0, 1, 1u32), (0, 2, 3), (1, 2, 1), (2, 1, 1), (1, 0, 2)];
        let expected = { let mut p = h8::ser::P::default(); for t in load { p.e.push(t); } p.run();
            fmt_rel("la", p.la.iter().map(|t| (t.0, t.1 .0)).collect::<Vec<_>>()) + &fmt_rel("lb", p.lb.iter().map(|t| (t.0, t.1 .0)).collect::<Vec<_>>()) };
        for (variant, label) in [(0, "par"), (1, "par+irp")] {
            let hname = format!("H8-mutual-lattices[{}]", label);
            if std::env::var("VSCHED_ONLY").ok().map_or(false, |o| o != hname) { continue; }
            let body = move || -> String {
                macro_rules! go { ($m:ident) => {{ let mut p = h8::$m::P::default(); for t in load { p.e.push(t); } p.run();
                    fmt_rel("la", p.la.iter().map(|t| { let t = t.read().unwrap(); (t.0, t.1 .0) }).collect::<Vec<_>>()) + &fmt_rel("lb", p.lb.iter().map(|t| { let t = t.read().unwrap(); (t.0, t.1 .0) }).collect::<Vec<_>>()) }}; }
                if variant == 0 { go!(par) } else { go!(irp) }
            };
            explore_harness(&mut rep, &prop, &hname, w, klat, cap, &body, &expected);
        }
    }
    // H9: run; add facts; run again (C13 under schedules): transitive closure, and a lattice feeding an aggregate
    {
        let (load, more) = ([(0, 1), (0, 2), (1, 3), (2, 3)], [(3, 4), (4, 0)]);
        let expected = { let mut p = h1::ser::P::default(); for t in load { p.edge.push(t); } p.run(); for t in more { p.edge.push(t); } p.run(); fmt_rel("path", p.path.clone()) };
        for (variant, label) in [(0, "par"), (1, "par+irp")] {
            let hname = format!("H9-rerun-tc[{}]", label);
            if std::env::var("VSCHED_ONLY").ok().map_or(false, |o| o != hname) { continue; }
            let body = move || -> String {
                macro_rules! go { ($m:ident) => {{ let mut p = h1::$m::P::default(); for t in load { p.edge.push(t); } p.run(); for t in more { p.edge.push(t); } p.run();
                    fmt_rel("path", p.path.iter().map(|t| t.clone()).collect::<Vec<_>>()) }}; }
                if variant == 0 { go!(par) } else { go!(irp) }
            };
            explore_harness(&mut rep, &prop, &hname, &[1, 2], klat, cap, &body, &expected);
        }
    }
    {
        let (load, more) = ([(0, 1u32), (0, 2), (1, 1)], [(0, 3u32), (2, 5)]);
        let expected = { let mut p = h4::ser::P::default(); for t in load { p.e.push(t); } p.run(); for t in more { p.e.push(t); } p.run();
            fmt_rel("m", p.m.iter().map(|t| t.clone()).collect::<Vec<_>>()) + &fmt_rel("c", p.c.iter().map(|t| t.clone()).collect::<Vec<_>>()) };
        for (variant, label) in [(0, "par"), (1, "par+irp")] {
            let hname = format!("H9-rerun-lattice-aggregate[{}]", label);
            if std::env::var("VSCHED_ONLY").ok().map_or(false, |o| o != hname) { continue; }
            let body = move || -> String {
                macro_rules! go { ($m:ident) => {{ let mut p = h4::$m::P::default(); for t in load { p.e.push(t); } p.run(); for t in more { p.e.push(t); } p.run();
                    fmt_rel("m", p.m.iter().map(|t| t.read().unwrap().clone()).collect::<Vec<_>>()) + &fmt_rel("c", p.c.iter().map(|t| t.clone()).collect::<Vec<_>>()) }}; }
                if variant == 0 { go!(par) } else { go!(irp) }
            };
            explore_harness(&mut rep, &prop, &hname, &[1, 2], klat, cap, &body, &expected);
        }
    }
    {
        let (ls, le) = ([(0, 5u32), (1, 9)], [(0, 0), (0, 1), (1, 0), (1, 2)]);
        let expected = { let mut p = h10::ser::P::default(); for t in ls { p.s.push(t); } for t in le { p.e.push(t); } p.run(); fmt_rel("sp", p.sp.iter().map(|t| (t.0, t.1 .0)).collect::<Vec<_>>()) };
        for (variant, label) in [(0, "par"), (1, "par+irp")] {
            let hname = format!("H10-lattice-third-clause[{}]", label);
            if std::env::var("VSCHED_ONLY").ok().map_or(false, |o| o != hname) { continue; }
            let body = move || -> String {
                macro_rules! go { ($m:ident) => {{ let mut p = h10::$m::P::default(); for t in ls { p.s.push(t); } for t in le { p.e.push(t); } p.run();
                    fmt_rel("sp", p.sp.iter().map(|t| { let t = t.read().unwrap(); (t.0, t.1 .0) }).collect::<Vec<_>>()) }}; }
                if variant == 0 { go!(par) } else { go!(irp) }
            };
            explore_harness(&mut rep, &prop, &hname, w, klat, cap, &body, &expected);
        }
    }
    {
        // (the slice is split in the middle: one worker gets (ka, 1), (kb, 2), the other (kc, 5), (ka, 3); the keys depend on
        // the shard count of the pool, so they are computed inside the execution and the serial result next to them)
        for (variant, label) in [(0, "par"), (1, "par+irp")] {
            let hname = format!("H12-lattice-keys-sharing-a-shard[{}]", label);
            if std::env::var("VSCHED_ONLY").ok().map_or(false, |o| o != hname) { continue; }
            let body = move || -> String {
                let (ka, kb, kc) = colliding_lattice_keys();
                let load = [(ka, 1u32), (kb, 2), (kc, 5), (ka, 3)];
                let want = { let mut p = h12::ser::P::default(); for t in load { p.e.push(t); } p.run(); fmt_rel("m", p.m.iter().map(|t| t.clone()).collect::<Vec<_>>()) };
                macro_rules! go { ($m:ident) => {{ let mut p = h12::$m::P::default(); for t in load { p.e.push(t); } p.run();
                    fmt_rel("m", p.m.iter().map(|t| t.read().unwrap().clone()).collect::<Vec<_>>()) }}; }
                let got = if variant == 0 { go!(par) } else { go!(irp) };
                if got == want { "same as serial".to_string() } else { format!("got {} serial {}", got, want) }
            };
            explore_harness(&mut rep, &prop, &hname, &[2], k, cap, &body, "same as serial");
        }
    }
    run_h!(&mut rep, &prop, "H11-eqrel-merge-vs-link", h11, &[2], k, cap, |p| { for t in [(0, 1), (1, 5), (2, 3), (2, 0)] { p.s.push(t); } },
        |q| { fmt_rel("o", q.o.iter().map(|t| t.clone()).collect::<Vec<_>>()) });
    run_h!(&mut rep, &prop, "H6-eqrel", h6, w, k, cap, |p| { for t in [(0, 1), (2, 3), (2, 4), (0, 2), (1, 5)] { p.s.push(t); } },
        |q| { fmt_rel("o", q.o.iter().map(|t| t.clone()).collect::<Vec<_>>()) });
    rep.rule = "every execution of the harness with at most k deviations (forks = stolen jobs, preemptions at lock acquisitions, non-default worker slots) for 1, 2 and 3 workers; each execution's relations (row count, distinct tuples, lattice value per key) must equal the serial macro's; non-trivial = execution with at least one fork or preemption".into();
    rep.finish(start)
}

//! Harness side of engine S: report plumbing shared by the schedule-exploration binaries.
use std::collections::BTreeMap;
use std::fmt::Write;

pub fn install_hooks() {
    ascent::verif::set_scheduler_hooks(vsched::point, vsched::mutex_acquire, vsched::mutex_release);
    ascent::verif::set_rwlock_hooks(vsched::rw_acquire, vsched::rw_release);
}

pub fn jstr(s: &str) -> String {
    let mut o = String::from("\"");
    for c in s.chars() { match c { '"' => o.push_str("\\\""), '\\' => o.push_str("\\\\"), '\n' => o.push_str("\\n"), c if (c as u32) < 0x20 => { let _ = write!(o, "\\u{:04x}", c as u32); } c => o.push(c) } }
    o.push('"');
    o
}

#[derive(Default)]
pub struct Report {
    pub property: String, pub part: String,
    pub states: u64, pub transitions: u64, pub executions: u64, pub nontrivial: u64,
    pub exhaustive: bool, pub caps: Vec<String>, pub samples: Vec<String>, pub extras: BTreeMap<String, String>,
    pub violations: Vec<(String, String, String)>, pub violation_total: u64, pub sig_counts: BTreeMap<String, u64>,
    pub machinery_errors: Vec<String>, pub rule: String,
}
impl Report {
    pub fn new(property: &str, part: &str) -> Report { Report { property: property.into(), part: part.into(), exhaustive: true, ..Default::default() } }
    /// `replay` is a JSON object (already serialized)
    pub fn violate(&mut self, sig: String, desc: String, replay: String) {
        self.violation_total += 1;
        let c = self.sig_counts.entry(sig.clone()).or_insert(0);
        *c += 1;
        if *c <= 2 && self.violations.len() < 100 { self.violations.push((sig, desc, replay)); }
    }
    pub fn extra(&mut self, k: &str, v: impl std::fmt::Display) { self.extras.insert(k.into(), format!("{}", v)); }
    pub fn finish(self, start: std::time::Instant) -> ! {
        let mut s = String::new();
        let tier = std::env::var("VERIF_TIER").unwrap_or_else(|_| "quick".into());
        write!(s, "{{\"property\":{},\"tier\":{},\"part\":{},\"states\":{},\"transitions\":{},\"executions\":{},\"evaluations\":{},\"nontrivial\":{},\"rule\":{},\"exhaustive\":{},",
            jstr(&self.property), jstr(&tier), jstr(&self.part), self.states, self.transitions, self.executions, self.executions, self.nontrivial, jstr(&self.rule), self.exhaustive).unwrap();
        write!(s, "\"caps_hit\":[{}],", self.caps.iter().map(|c| jstr(c)).collect::<Vec<_>>().join(",")).unwrap();
        write!(s, "\"samples\":[{}],", self.samples.join(",")).unwrap();
        write!(s, "\"extras\":{{{}}},", self.extras.iter().map(|(k, v)| format!("{}:{}", jstr(k), if v.parse::<f64>().is_ok() { v.clone() } else { jstr(v) })).collect::<Vec<_>>().join(",")).unwrap();
        write!(s, "\"violations\":[{}],", self.violations.iter().map(|(sig, d, r)| format!("{{\"sig\":{},\"desc\":{},\"replay\":{}}}", jstr(sig), jstr(d), r)).collect::<Vec<_>>().join(",")).unwrap();
        write!(s, "\"violation_total\":{},\"sig_counts\":{{{}}},", self.violation_total, self.sig_counts.iter().map(|(k, v)| format!("{}:{}", jstr(k), v)).collect::<Vec<_>>().join(",")).unwrap();
        write!(s, "\"machinery_errors\":[{}],\"wall_s\":{}}}", self.machinery_errors.iter().map(|c| jstr(c)).collect::<Vec<_>>().join(","), start.elapsed().as_secs_f64()).unwrap();
        match std::env::var("VERIF_OUT") { Ok(p) => std::fs::write(p, s).unwrap(), Err(_) => println!("{}", s) }
        std::process::exit(if !self.machinery_errors.is_empty() { 2 } else if self.violation_total > 0 { 1 } else { 0 })
    }
}

pub fn schedule_json(choices: &[u8]) -> String { format!("[{}]", choices.iter().map(|c| c.to_string()).collect::<Vec<_>>().join(",")) }

/// Explores one harness body for every worker count and deviation bound up to `kmax`; every outcome that
/// differs from `expected` (or a panic / deadlock / livelock) is a violation carrying its schedule.
pub fn explore_harness(rep: &mut Report, prop: &str, name: &str, workers: &[usize], kmax: u32, max_exec: u64, body: &(dyn Fn() -> String + Sync), expected: &str) {
    explore_harness_opt(rep, prop, name, workers, kmax, max_exec, body, expected, false)
}

fn esc(s: &str) -> String { s.replace('\\', "\\\\").replace('\n', "\\n").replace('\t', "\\t") }
fn unesc(s: &str) -> String {
    let mut out = String::new();
    let mut it = s.chars();
    while let Some(c) = it.next() {
        if c == '\\' { match it.next() { Some('n') => out.push('\n'), Some('t') => out.push('\t'), Some(x) => out.push(x), None => {} } } else { out.push(c); }
    }
    out
}
fn intern(s: &str) -> &'static str {
    static TABLE: std::sync::Mutex<Vec<&'static str>> = std::sync::Mutex::new(Vec::new());
    let mut t = TABLE.lock().unwrap();
    if let Some(x) = t.iter().find(|x| **x == s) { return x; }
    let l: &'static str = Box::leak(s.to_string().into_boxed_str());
    t.push(l);
    l
}
/// child side of the fresh-process mode: one schedule prefix is executed and its result printed
fn child_run(n: usize, prefix: &[u8], body: &(dyn Fn() -> String + Sync)) -> ! {
    let cfg = vsched::Config { workers: n, ..Default::default() };
    let ex = vsched::run_one(&cfg, prefix, body);
    let mut out = String::new();
    match &ex.result {
        Ok(o) => out.push_str(&format!("R\tok\t{}\n", esc(o))),
        Err(vsched::Failure::Panic(p)) => out.push_str(&format!("R\tpanic\t{}\n", esc(p))),
        Err(vsched::Failure::Deadlock(d)) => out.push_str(&format!("R\tdeadlock\t{}\n", esc(d))),
        Err(vsched::Failure::StepLimit) => out.push_str("R\tsteplimit\t\n"),
        Err(vsched::Failure::ReplayDivergence(m)) => out.push_str(&format!("R\tdivergence\t{}\n", esc(m))),
    }
    for c in &ex.trace { out.push_str(&format!("T\t{}\t{}\t{}\t{}\n", c.options, c.chosen, esc(c.kind), c.costs.iter().map(|x| x.to_string()).collect::<Vec<_>>().join(","))); }
    for l in &ex.log { out.push_str(&format!("L\t{}\n", esc(l))); }
    out.push_str("E\n");
    use std::io::Write;
    let _ = std::io::stdout().write_all(out.as_bytes());
    let _ = std::io::stdout().flush();
    std::process::exit(0)
}
/// parent side: runs one schedule prefix in a fresh process of this binary
fn spawn_run(n: usize, prefix: &[u8]) -> vsched::Execution<String> {
    let exe = std::env::current_exe().expect("current_exe");
    let out = std::process::Command::new(exe)
        .env("VSCHED_CHILD_WORKERS", n.to_string())
        .env("VSCHED_CHILD_PREFIX", prefix.iter().map(|c| c.to_string()).collect::<Vec<_>>().join(","))
        .env_remove("VERIF_OUT")
        .output();
    let fail = |m: String| vsched::Execution { result: Err(vsched::Failure::ReplayDivergence(m)), trace: vec![], log: vec![] };
    let out = match out { Ok(o) => o, Err(e) => return fail(format!("cannot spawn the child process: {}", e)) };
    let txt = String::from_utf8_lossy(&out.stdout).to_string();
    if !txt.ends_with("E\n") { return fail(format!("child process ended without a result (status {:?}): {}", out.status, String::from_utf8_lossy(&out.stderr).chars().take(300).collect::<String>())); }
    let mut result = None;
    let mut trace = vec![];
    let mut log = vec![];
    for line in txt.lines() {
        let f: Vec<&str> = line.split('\t').collect();
        match f[0] {
            "R" => { let v = unesc(f.get(2).unwrap_or(&"")); result = Some(match f[1] { "ok" => Ok(v), "panic" => Err(vsched::Failure::Panic(v)), "deadlock" => Err(vsched::Failure::Deadlock(v)), "steplimit" => Err(vsched::Failure::StepLimit), _ => Err(vsched::Failure::ReplayDivergence(v)) }); }
            "T" => trace.push(vsched::Choice { options: f[1].parse().unwrap(), chosen: f[2].parse().unwrap(), kind: intern(&unesc(f[3])), costs: f[4].split(',').filter_map(|x| x.parse().ok()).collect() }),
            "L" => log.push(unesc(f.get(1).unwrap_or(&""))),
            _ => {}
        }
    }
    match result { Some(r) => vsched::Execution { result: r, trace, log }, None => fail("child process printed no result".into()) }
}

/// `fresh_process`: every execution runs in a new process of this binary (process-wide state such as caches
/// filled at first use cannot leak from one explored execution into the next)
pub fn explore_harness_opt(rep: &mut Report, prop: &str, name: &str, workers: &[usize], kmax: u32, max_exec: u64, body: &(dyn Fn() -> String + Sync), expected: &str, fresh_process: bool) {
    if let (Ok(w), Ok(p)) = (std::env::var("VSCHED_CHILD_WORKERS"), std::env::var("VSCHED_CHILD_PREFIX")) {
        let prefix: Vec<u8> = p.split(',').filter_map(|x| x.parse().ok()).collect();
        child_run(w.parse().unwrap(), &prefix, body);
    }
    let shard = std::env::var("VSCHED_SHARD").ok().and_then(|s| { let mut it = s.split('/'); Some((it.next()?.parse().ok()?, it.next()?.parse().ok()?)) }).unwrap_or((0usize, 1usize));
    // replay mode: exactly one recorded schedule
    if let (Ok(w), Ok(sc)) = (std::env::var("VSCHED_REPLAY_WORKERS"), std::env::var("VSCHED_REPLAY_SCHEDULE")) {
        let n: usize = w.parse().unwrap();
        let sched: Vec<u8> = sc.split(',').filter_map(|x| x.parse().ok()).collect();
        let cfg = vsched::Config { workers: n, ..Default::default() };
        let ex = vsched::run_one(&cfg, &sched, body);
        rep.executions += 1; rep.states += ex.trace.len() as u64; rep.transitions += ex.trace.len() as u64;
        let ok = matches!(&ex.result, Ok(o) if o == expected);
        if !ok { rep.violate(format!("{}|vsched|{}|replay", prop, name), format!("{} with {} workers, schedule {:?}: {:?} (serial: {})", name, n, sched, ex.result, expected), "{}".into()); }
        rep.samples.push(format!("{{\"replayed\":{}}}", jstr(name)));
        return;
    }
    for &n in workers {
        // iterate the bound: the first counterexample found has the fewest deviations
        let mut outcomes: BTreeMap<String, u64> = BTreeMap::new();
        // quick tier: the full bound for two workers, one deviation less for three
        let thorough = std::env::var("VERIF_TIER").map_or(false, |t| t == "thorough");
        let kmax = if !thorough && n >= 3 && kmax > 1 { kmax - 1 } else { kmax };
        let cfg = vsched::Config { workers: n, max_deviations: kmax, max_executions: max_exec, shard, ..Default::default() };
        let t0 = std::time::Instant::now();
        let mut collided = 0u64;
        let mut runner_local = |prefix: &[u8]| vsched::run_one(&cfg, prefix, body);
        let mut runner_fresh = |prefix: &[u8]| spawn_run(n, prefix);
        let runner: &mut dyn FnMut(&[u8]) -> vsched::Execution<String> = if fresh_process { &mut runner_fresh } else { &mut runner_local };
        if fresh_process { rep.extra(&format!("{}.N{}.fresh_process_per_execution", name, n), true); }
        let res = vsched::explore_with(&cfg, runner, &mut |choices, ex| {
            let (kind, detail) = match &ex.result {
                Ok(o) => { *outcomes.entry(o.clone()).or_insert(0) += 1; if o == expected { (None, String::new()) } else { (Some("outcome-differs-from-serial"), format!("got {} expected {}", o, expected)) } }
                Err(vsched::Failure::Panic(p)) => (Some("panic"), p.clone()),
                Err(vsched::Failure::Deadlock(d)) => (Some("deadlock"), d.clone()),
                Err(vsched::Failure::StepLimit) => (Some("livelock-step-limit"), String::new()),
                Err(vsched::Failure::ReplayDivergence(m)) => (Some("replay-divergence"), m.clone()),
            };
            if ex.trace.iter().any(|c| c.chosen != 0 && c.costs[c.chosen as usize] > 0) { collided += 1; }
            if let Some(k) = kind {
                let devs: u32 = ex.trace.iter().map(|c| c.costs[c.chosen as usize] as u32).sum();
                rep.violate(format!("{}|vsched|{}|{}", prop, name, k),
                    format!("{} with {} workers, schedule {:?} ({} deviations): {} {}", name, n, choices, devs, k, detail.chars().take(400).collect::<String>()),
                    format!("{{\"harness\":{},\"workers\":{},\"schedule\":{},\"kind\":{}}}", jstr(name), n, schedule_json(choices), jstr(k)));
            }
            true
        });
        match res {
            Err(e) => rep.machinery_errors.push(format!("{} N={}: {}", name, n, e)),
            Ok(st) => {
                rep.executions += st.executions;
                rep.transitions += st.choice_points;
                rep.states += st.choice_points; // schedule-tree nodes visited (re-visits of shared prefixes included)
                rep.nontrivial += collided;
                if let Some(c) = &st.cap_hit { rep.exhaustive = false; rep.caps.push(format!("{} N={}: {} (bound {} not completed)", name, n, c, kmax)); }
                rep.extra(&format!("{}.N{}.executions", name, n), st.executions);
                rep.extra(&format!("{}.N{}.by_deviations", name, n), format!("{:?}", st.by_deviations));
                rep.extra(&format!("{}.N{}.deviation_bound_completed", name, n), if st.cap_hit.is_none() { kmax as i64 } else { -1 });
                rep.extra(&format!("{}.N{}.max_choice_points", name, n), st.max_trace_len);
                rep.extra(&format!("{}.N{}.distinct_outcomes", name, n), outcomes.len());
                rep.extra(&format!("{}.N{}.replays_checked", name, n), st.replays_checked);
                rep.extra(&format!("{}.N{}.wall_s", name, n), format!("{:.2}", t0.elapsed().as_secs_f64()));
                if rep.samples.len() < 4 { rep.samples.push(format!("{{\"harness\":{},\"workers\":{},\"executions\":{},\"outcome\":{}}}", jstr(name), n, st.executions, jstr(&expected.chars().take(200).collect::<String>()))); }
            }
        }
    }
}

/// `--replay f`: re-executes exactly one recorded schedule of one harness
pub fn replay_request() -> Option<(String, usize, Vec<u8>)> {
    let args: Vec<String> = std::env::args().collect();
    let i = args.iter().position(|a| a == "--replay")?;
    let txt = std::fs::read_to_string(&args[i + 1]).ok()?;
    // tiny extraction, the file is written by our own driver
    let grab = |key: &str| -> Option<String> { let p = txt.find(&format!("\"{}\":", key))? + key.len() + 3; Some(txt[p..].trim_start().to_string()) };
    let h = grab("harness")?; let h = h.trim_start_matches('"'); let h = h[..h.find('"')?].to_string();
    let w = grab("workers")?; let w: usize = w[..w.find(|c: char| !c.is_ascii_digit())?].parse().ok()?;
    let s = grab("schedule")?; let s = &s[s.find('[')? + 1..s.find(']')?];
    let sched: Vec<u8> = s.split(',').filter_map(|x| x.trim().parse().ok()).collect();
    Some((h, w, sched))
}

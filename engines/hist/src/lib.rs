//! Engine H: depth-first enumeration of all operation histories up to a depth bound over a
//! real data-structure value, a reference model stepped alongside (state = history, no merging).
use std::collections::HashSet;
use std::fmt::Debug;
use std::sync::Mutex;
use vcore::report::{catch, panic_sig};
use vcore::{json, Report, Value};

#[derive(Default)]
pub struct Sink {
    pub violations: Vec<(String, String, Value)>,
    pub nodes: u64,
    pub ops: u64,
    pub queries: u64,
    pub nontrivial: u64,
    pub outcomes: HashSet<String>,
    pub samples: Vec<Value>,
}
impl Sink {
    pub fn violate(&mut self, sig: impl Into<String>, desc: impl Into<String>, replay: Value) {
        if self.violations.len() < 5000 { self.violations.push((sig.into(), desc.into(), replay)); }
    }
}

pub trait Machine: Sized {
    type Op: Clone + Debug + Send + Sync;
    fn new() -> Self;
    /// A copy of `self`, which was reached by `hist` (clone, or replay from empty).
    fn fork(&self, hist: &[Self::Op]) -> Self;
    /// Is `op` enabled in this state (e.g. refers to existing ids only)?
    fn enabled(&self, _op: &Self::Op) -> bool { true }
    /// Apply `op` to the real structure and to the reference, then compare every query.
    /// `hist` includes `op` as its last element.
    fn apply(&mut self, op: &Self::Op, hist: &[Self::Op], sink: &mut Sink);
    /// canonical abstract state, for the distinct-outcome count
    fn outcome(&self) -> String;
    fn nontrivial(_hist: &[Self::Op]) -> bool { true }
    /// symmetry reduction hook: return false to skip a non-canonical history
    fn canonical(_hist: &[Self::Op]) -> bool { true }
}

fn dfs<M: Machine>(m: &M, hist: &mut Vec<M::Op>, ops: &[M::Op], depth: usize, sink: &mut Sink, name: &str) {
    if hist.len() >= depth { return; }
    for op in ops {
        if !m.enabled(op) { continue; }
        hist.push(op.clone());
        if !M::canonical(hist) || !replay_allows(hist) { hist.pop(); continue; }
        let mut child = m.fork(&hist[..hist.len() - 1]);
        let r = catch(|| { child.apply(op, hist, sink); });
        sink.nodes += 1;
        sink.ops += 1;
        match r {
            Err(p) => {
                sink.violate(format!("{}|panic|{}", sig_name(name), panic_sig(&p)), format!("{} panicked after history {:?}: {}", name, hist, p),
                    json!({"machine": name, "history": format!("{:?}", hist), "panic": p}));
            }
            Ok(()) => {
                if M::nontrivial(hist) { sink.nontrivial += 1; }
                if sink.outcomes.len() < 200_000 { sink.outcomes.insert(child.outcome()); }
                if sink.samples.len() < 2 && hist.len() == depth { sink.samples.push(json!({"machine": name, "history": format!("{:?}", hist), "state": child.outcome()})); }
                dfs(&child, hist, ops, depth, sink, name);
            }
        }
        hist.pop();
    }
}

/// replay mode: only histories that are prefixes of this Debug-formatted history are explored
pub static REPLAY_HISTORY: std::sync::OnceLock<String> = std::sync::OnceLock::new();
fn replay_allows<O: Debug>(hist: &[O]) -> bool {
    match REPLAY_HISTORY.get() {
        None => true,
        Some(t) => {
            let h = format!("{:?}", hist);
            let hp = &h[..h.len() - 1];
            t.starts_with(hp) && matches!(t[hp.len()..].chars().next(), Some(',') | Some(']'))
        }
    }
}
/// call at start of main: installs the replay filter when `--replay f` was given
pub fn init_replay() -> Option<Value> {
    let r = vcore::report::replay_arg()?;
    if let Some(h) = r["history"].as_str() { let _ = REPLAY_HISTORY.set(h.to_string()); }
    Some(r)
}

fn sig_name(name: &str) -> &str { name.split('[').next().unwrap() }

/// Explores every history over `ops` up to `depth`, the first-level branches spread over threads.
pub fn explore<M: Machine>(name: &str, ops: &[M::Op], depth: usize, rep: &mut Report) {
    let t0 = std::time::Instant::now();
    let total = Mutex::new(Sink::default());
    let root = M::new();
    // two-level fan-out for load balance
    let mut prefixes: Vec<Vec<M::Op>> = vec![];
    for a in ops {
        if !root.enabled(a) { continue; }
        prefixes.push(vec![a.clone()]);
    }
    let next = std::sync::atomic::AtomicUsize::new(0);
    let nthreads = std::thread::available_parallelism().map(|n| n.get()).unwrap_or(4).min(16);
    std::thread::scope(|s| {
        for _ in 0..nthreads {
            s.spawn(|| {
                // each explorer thread owns a one-worker rayon pool and runs inside it, so that
                // parallel-iterator reads of the checked structures execute inline and deterministically
                let pool = rayon::ThreadPoolBuilder::new().num_threads(1).build().unwrap();
                pool.install(|| {
                let mut sink = Sink::default();
                loop {
                    let i = next.fetch_add(1, std::sync::atomic::Ordering::SeqCst);
                    if i >= prefixes.len() { break; }
                    let mut hist = prefixes[i].clone();
                    if !M::canonical(&hist) || !replay_allows(&hist) { continue; }
                    let mut m = M::new();
                    let op = hist[0].clone();
                    let r = catch(|| m.apply(&op, &hist, &mut sink));
                    sink.nodes += 1;
                    sink.ops += 1;
                    match r {
                        Err(p) => sink.violate(format!("{}|panic|{}", sig_name(name), panic_sig(&p)), format!("{} panicked after history {:?}: {}", name, hist, p), json!({"machine": name, "history": format!("{:?}", hist), "panic": p})),
                        Ok(()) => {
                            if M::nontrivial(&hist) { sink.nontrivial += 1; }
                            sink.outcomes.insert(m.outcome());
                            dfs(&m, &mut hist, ops, depth, &mut sink, name);
                        }
                    }
                }
                let mut t = total.lock().unwrap();
                t.nodes += sink.nodes; t.ops += sink.ops; t.queries += sink.queries; t.nontrivial += sink.nontrivial;
                t.violations.extend(sink.violations);
                for o in sink.outcomes { if t.outcomes.len() < 1_000_000 { t.outcomes.insert(o); } }
                t.samples.extend(sink.samples);
                });
            });
        }
    });
    let t = total.into_inner().unwrap();
    rep.states += t.nodes + 1;
    rep.transitions += t.ops;
    rep.executions += t.nodes;
    rep.evaluations += t.nodes;
    rep.nontrivial += t.nontrivial;
    rep.extra(&format!("{}.histories", name), t.nodes);
    rep.extra(&format!("{}.depth", name), depth as u64);
    rep.extra(&format!("{}.alphabet", name), ops.len() as u64);
    rep.extra(&format!("{}.queries", name), t.queries);
    rep.extra(&format!("{}.distinct_outcomes", name), t.outcomes.len() as u64);
    rep.extra(&format!("{}.wall_s", name), t0.elapsed().as_secs_f64());
    let mut vs = t.violations;
    vs.sort_by(|a, b| (a.1.len(), &a.1).cmp(&(b.1.len(), &b.1))); // shortest counterexample first
    for (sig, desc, replay) in vs { rep.violate(sig, desc, replay); }
    for s in t.samples.into_iter().take(2) { rep.sample(s); }
}

/// reflexive-transitive closure helper over elements 0..n (bit matrix)
pub fn closure(n: usize, pairs: &[(usize, usize)], reflexive_on_mentioned: bool, symmetric: bool) -> Vec<Vec<bool>> {
    let mut m = vec![vec![false; n]; n];
    for &(a, b) in pairs {
        m[a][b] = true;
        if symmetric { m[b][a] = true; }
        if reflexive_on_mentioned { m[a][a] = true; m[b][b] = true; }
    }
    for k in 0..n { for i in 0..n { if m[i][k] { for j in 0..n { if m[k][j] { m[i][j] = true; } } } } }
    m
}

//! C16 — lattice laws, exhaustively over small carriers (engine H).
//! Every pair and every triple of each carrier is pushed through the real
//! `Lattice` / `BoundedLattice` / `PartialOrd` implementations of ascent_base.
use ascent_base::lattice::bounded_set::BoundedSet;
use ascent_base::lattice::constant_propagation::ConstPropagation;
use ascent_base::lattice::ord_lattice::OrdLattice;
use ascent_base::lattice::set::Set;
use ascent_base::lattice::{BoundedLattice, Dual, Product};
use ascent_base::Lattice;
use std::cmp::Ordering::{self, *};
use std::cmp::Reverse;
use std::collections::BTreeSet;
use std::fmt::Debug;
use std::rc::Rc;
use std::sync::Arc;
use vcore::report::{catch, silence_panics};
use vcore::{json, Report};

struct Ctx {
    rep: Report,
    only_type: Option<String>,
    ops: u64,
    cases: u64,
    nontrivial: u64,
}

fn le(o: Option<Ordering>) -> bool { matches!(o, Some(Less | Equal)) }

impl Ctx {
    fn fail<T: Debug>(&mut self, ty: &str, law: &str, vals: &[&T]) {
        let vs: Vec<String> = vals.iter().map(|v| format!("{:?}", v)).collect();
        self.rep.violate(
            format!("C16|{}|{}", ty, law),
            format!("{} violates `{}` on {:?}", ty, law, vs),
            json!({"type": ty, "law": law, "values": vs}),
        );
    }

    /// `seeds` is the carrier, `mk` builds a fresh value from a seed (fresh matters for
    /// Rc / Arc: unique vs shared reference counts take different branches).
    fn check<S: Clone + Debug, T: Lattice + Clone + PartialEq + Debug>(
        &mut self, ty: &str, seeds: &[S], mk: &dyn Fn(&S) -> T, triples: bool,
    ) {
        if let Some(o) = &self.only_type { if o != ty { return; } }
        let n = seeds.len();
        let before_cases = self.cases;
        let r = catch(|| {
            for i in 0..n {
                let a = mk(&seeds[i]);
                // idempotence
                if mk(&seeds[i]).join(mk(&seeds[i])) != a { self.fail(ty, "join idempotent", &[&a]); }
                if mk(&seeds[i]).meet(mk(&seeds[i])) != a { self.fail(ty, "meet idempotent", &[&a]); }
                if a.partial_cmp(&a) != Some(Equal) { self.fail(ty, "partial_cmp reflexive", &[&a]); }
                self.ops += 3;
                for j in 0..n {
                    let b = mk(&seeds[j]);
                    self.cases += 1;
                    if a != b { self.nontrivial += 1; }
                    let jab = mk(&seeds[i]).join(mk(&seeds[j]));
                    let jba = mk(&seeds[j]).join(mk(&seeds[i]));
                    let mab = mk(&seeds[i]).meet(mk(&seeds[j]));
                    let mba = mk(&seeds[j]).meet(mk(&seeds[i]));
                    if jab != jba { self.fail(ty, "join commutative", &[&a, &b]); }
                    if mab != mba { self.fail(ty, "meet commutative", &[&a, &b]); }
                    // absorption
                    if mk(&seeds[i]).join(mab.clone()) != a { self.fail(ty, "join absorbs meet", &[&a, &b]); }
                    if mk(&seeds[i]).meet(jab.clone()) != a { self.fail(ty, "meet absorbs join", &[&a, &b]); }
                    // order agreement
                    let ab = a.partial_cmp(&b);
                    let ba = b.partial_cmp(&a);
                    if ab != ba.map(Ordering::reverse) { self.fail(ty, "partial_cmp antisymmetric", &[&a, &b]); }
                    if (ab == Some(Equal)) != (a == b) { self.fail(ty, "partial_cmp Equal iff ==", &[&a, &b]); }
                    let a_le_b = le(ab);
                    if a_le_b != (jab == b) { self.fail(ty, "a<=b iff join(a,b)=b", &[&a, &b]); }
                    if a_le_b != (mab == a) { self.fail(ty, "a<=b iff meet(a,b)=a", &[&a, &b]); }
                    // operator forms of the order agree with partial_cmp
                    if (a <= b) != a_le_b || (a < b) != (ab == Some(Less)) || (a >= b) != le(ba) || (a > b) != (ab == Some(Greater)) {
                        self.fail(ty, "comparison operators agree with partial_cmp", &[&a, &b]);
                    }
                    // bounds
                    if !le(a.partial_cmp(&jab)) || !le(b.partial_cmp(&jab)) { self.fail(ty, "join is an upper bound", &[&a, &b]); }
                    if !le(mab.partial_cmp(&a)) || !le(mab.partial_cmp(&b)) { self.fail(ty, "meet is a lower bound", &[&a, &b]); }
                    // in-place variants
                    let mut x = mk(&seeds[i]);
                    let ch = x.join_mut(mk(&seeds[j]));
                    if x != jab { self.fail(ty, "join_mut leaves join", &[&a, &b]); }
                    if ch != (x != a) { self.fail(ty, "join_mut reports change truthfully", &[&a, &b]); }
                    let mut y = mk(&seeds[i]);
                    let ch = y.meet_mut(mk(&seeds[j]));
                    if y != mab { self.fail(ty, "meet_mut leaves meet", &[&a, &b]); }
                    if ch != (y != a) { self.fail(ty, "meet_mut reports change truthfully", &[&a, &b]); }
                    self.ops += 12;
                    if triples {
                        for k in 0..n {
                            let c = mk(&seeds[k]);
                            self.cases += 1;
                            let l = jab.clone().join(mk(&seeds[k]));
                            let r = mk(&seeds[i]).join(mk(&seeds[j]).join(mk(&seeds[k])));
                            if l != r { self.fail(ty, "join associative", &[&a, &b, &c]); }
                            let l = mab.clone().meet(mk(&seeds[k]));
                            let r = mk(&seeds[i]).meet(mk(&seeds[j]).meet(mk(&seeds[k])));
                            if l != r { self.fail(ty, "meet associative", &[&a, &b, &c]); }
                            // least upper bound / greatest lower bound
                            if le(a.partial_cmp(&c)) && le(b.partial_cmp(&c)) && !le(jab.partial_cmp(&c)) {
                                self.fail(ty, "join is the least upper bound", &[&a, &b, &c]);
                            }
                            if le(c.partial_cmp(&a)) && le(c.partial_cmp(&b)) && !le(c.partial_cmp(&mab)) {
                                self.fail(ty, "meet is the greatest lower bound", &[&a, &b, &c]);
                            }
                            // transitivity of the order
                            if le(ab) && le(b.partial_cmp(&c)) && !le(a.partial_cmp(&c)) {
                                self.fail(ty, "order transitive", &[&a, &b, &c]);
                            }
                            self.ops += 6;
                        }
                    }
                }
            }
        });
        if let Err(msg) = r {
            self.rep.violate(format!("C16|{}|panic", ty), format!("{} panicked: {}", ty, msg), json!({"type": ty, "panic": msg}));
        }
        let c = self.cases - before_cases;
        self.rep.extras.insert(format!("cases[{}]", ty), json!(c));
        if self.rep.samples.len() < 8 && n >= 2 {
            let a = mk(&seeds[n / 2]);
            let b = mk(&seeds[n - 1]);
            let j = mk(&seeds[n / 2]).join(mk(&seeds[n - 1]));
            self.rep.samples.push(json!({"type": ty, "a": format!("{:?}", a), "b": format!("{:?}", b), "join": format!("{:?}", j)}));
        }
    }

    fn check_bounded<S: Clone + Debug, T: BoundedLattice + Clone + PartialEq + Debug>(
        &mut self, ty: &str, seeds: &[S], mk: &dyn Fn(&S) -> T,
    ) {
        if let Some(o) = &self.only_type { if o != ty { return; } }
        let r = catch(|| {
            for s in seeds {
                let a = mk(s);
                self.cases += 1;
                if !le(T::bottom().partial_cmp(&a)) { self.fail(ty, "bottom is least", &[&a]); }
                if !le(a.partial_cmp(&T::top())) { self.fail(ty, "top is greatest", &[&a]); }
                if mk(s).join(T::bottom()) != a || T::bottom().join(mk(s)) != a { self.fail(ty, "join with bottom is identity", &[&a]); }
                if mk(s).meet(T::top()) != a || T::top().meet(mk(s)) != a { self.fail(ty, "meet with top is identity", &[&a]); }
                if mk(s).join(T::top()) != T::top() { self.fail(ty, "join with top is top", &[&a]); }
                if mk(s).meet(T::bottom()) != T::bottom() { self.fail(ty, "meet with bottom is bottom", &[&a]); }
                let mut x = mk(s);
                if x.join_mut(T::bottom()) { self.fail(ty, "join_mut(bottom) reports no change", &[&a]); }
                let mut x = mk(s);
                if x.meet_mut(T::top()) { self.fail(ty, "meet_mut(top) reports no change", &[&a]); }
                self.ops += 10;
            }
        });
        if let Err(msg) = r {
            self.rep.violate(format!("C16|{}|panic", ty), format!("{} panicked: {}", ty, msg), json!({"type": ty, "panic": msg}));
        }
    }

    /// Dual<T> / Reverse<T> swap the operations, the order and the extremal elements of T.
    fn check_swap<S: Clone + Debug, T: Lattice + Clone + PartialEq + Debug>(&mut self, ty: &str, seeds: &[S], mk: &dyn Fn(&S) -> T) {
        let dty = format!("Dual<{}>", ty);
        let rty = format!("Reverse<{}>", ty);
        if let Some(o) = &self.only_type { if *o != dty && *o != rty { return; } }
        for s1 in seeds {
            for s2 in seeds {
                let (a, b) = (mk(s1), mk(s2));
                self.cases += 1;
                if Dual(mk(s1)).join(Dual(mk(s2))) != Dual(mk(s1).meet(mk(s2))) { self.fail(&dty, "Dual join is meet", &[&a, &b]); }
                if Dual(mk(s1)).meet(Dual(mk(s2))) != Dual(mk(s1).join(mk(s2))) { self.fail(&dty, "Dual meet is join", &[&a, &b]); }
                if Dual(mk(s1)).partial_cmp(&Dual(mk(s2))) != a.partial_cmp(&b).map(Ordering::reverse) { self.fail(&dty, "Dual reverses the order", &[&a, &b]); }
                let mut x = Dual(mk(s1));
                let ch = x.join_mut(Dual(mk(s2)));
                let mut y = mk(s1);
                let ch2 = y.meet_mut(mk(s2));
                if x.0 != y || ch != ch2 { self.fail(&dty, "Dual join_mut is meet_mut", &[&a, &b]); }
                let mut x = Dual(mk(s1));
                let ch = x.meet_mut(Dual(mk(s2)));
                let mut y = mk(s1);
                let ch2 = y.join_mut(mk(s2));
                if x.0 != y || ch != ch2 { self.fail(&dty, "Dual meet_mut is join_mut", &[&a, &b]); }
                if Reverse(mk(s1)).join(Reverse(mk(s2))) != Reverse(mk(s1).meet(mk(s2))) { self.fail(&rty, "Reverse join is meet", &[&a, &b]); }
                if Reverse(mk(s1)).meet(Reverse(mk(s2))) != Reverse(mk(s1).join(mk(s2))) { self.fail(&rty, "Reverse meet is join", &[&a, &b]); }
                if Reverse(mk(s1)).partial_cmp(&Reverse(mk(s2))) != a.partial_cmp(&b).map(Ordering::reverse) { self.fail(&rty, "Reverse reverses the order", &[&a, &b]); }
                self.ops += 10;
            }
        }
    }
    fn check_swap_bounds<T: BoundedLattice + PartialEq + Debug>(&mut self, ty: &str) {
        if let Some(o) = &self.only_type { if !o.contains(ty) { return; } }
        if Dual::<T>::top().0 != T::bottom() || Dual::<T>::bottom().0 != T::top() {
            self.fail(&format!("Dual<{}>", ty), "Dual swaps top and bottom", &[&T::top(), &T::bottom()]);
        }
        if Reverse::<T>::top().0 != T::bottom() || Reverse::<T>::bottom().0 != T::top() {
            self.fail(&format!("Reverse<{}>", ty), "Reverse swaps top and bottom", &[&T::top(), &T::bottom()]);
        }
        self.ops += 4;
        self.cases += 1;
    }
}

fn subsets(n: u8) -> Vec<BTreeSet<u8>> {
    (0u32..(1 << n)).map(|m| (0..n).filter(|i| m & (1 << i) != 0).collect()).collect()
}

macro_rules! int_boundary {
    ($cx:expr, $t:ty, $tr:expr) => {{
        let c: Vec<$t> = if <$t>::MIN == 0 {
            vec![0, 1, 2, <$t>::MAX / 2, <$t>::MAX - 1, <$t>::MAX]
        } else {
            vec![<$t>::MIN, <$t>::MIN + 1, (0 as $t).wrapping_sub(1), 0, 1, <$t>::MAX - 1, <$t>::MAX]
        };
        $cx.check(stringify!($t), &c, &|x: &$t| *x, $tr);
        $cx.check_bounded(stringify!($t), &c, &|x: &$t| *x);
        $cx.check_swap(stringify!($t), &c, &|x: &$t| *x);
        $cx.check_swap_bounds::<$t>(stringify!($t));
    }};
}

fn main() {
    let start = std::time::Instant::now();
    silence_panics();
    let args: Vec<String> = std::env::args().collect();
    let mut only_type = args.iter().position(|a| a == "--only-type").map(|i| args[i + 1].clone());
    if let Some(r) = vcore::report::replay_arg() { only_type = r["type"].as_str().map(|s| s.to_string()); }
    let mut cx = Ctx { rep: Report::new("C16", "lattice-laws"), only_type, ops: 0, cases: 0, nontrivial: 0 };
    let thorough = cx.rep.thorough();

    // ---- complete carriers -------------------------------------------------------
    let bools = [false, true];
    cx.check("bool", &bools, &|x| *x, true);
    cx.check_bounded("bool", &bools, &|x| *x);
    cx.check_swap("bool", &bools, &|x| *x);
    cx.check_swap_bounds::<bool>("bool");

    let all_u8: Vec<u8> = (0..=255).collect();
    let all_i8: Vec<i8> = (-128..=127).collect();
    // pairs over the complete carrier always; triples over the complete carrier in the
    // thorough tier, over a 40-element sub-carrier (both ends + middle) in the quick tier
    let sub_u8: Vec<u8> = (0..16).chain(120..136).chain(248..=255).collect();
    let sub_i8: Vec<i8> = (-128..-120).chain(-8..8).chain(112..=127).collect();
    cx.check("u8", &all_u8, &|x| *x, thorough);
    cx.check("i8", &all_i8, &|x| *x, thorough);
    if !thorough {
        cx.check("u8[sub40]", &sub_u8, &|x| *x, true);
        cx.check("i8[sub40]", &sub_i8, &|x| *x, true);
    }
    cx.check_bounded("u8", &all_u8, &|x| *x);
    cx.check_bounded("i8", &all_i8, &|x| *x);
    cx.check_swap("u8", &sub_u8, &|x| *x);
    cx.check_swap("i8", &sub_i8, &|x| *x);
    cx.check_swap_bounds::<u8>("u8");
    cx.check_swap_bounds::<i8>("i8");

    int_boundary!(cx, i16, true);
    int_boundary!(cx, u16, true);
    int_boundary!(cx, i32, true);
    int_boundary!(cx, u32, true);
    int_boundary!(cx, i64, true);
    int_boundary!(cx, u64, true);
    int_boundary!(cx, i128, true);
    int_boundary!(cx, u128, true);
    int_boundary!(cx, isize, true);
    int_boundary!(cx, usize, true);

    // ---- wrappers over a 6-element integer carrier ------------------------------------
    let small: Vec<u8> = vec![0, 1, 2, 3, 254, 255];
    cx.check("OrdLattice<u8>", if thorough { &all_u8 } else { &sub_u8 }, &|x| OrdLattice(*x), true);
    cx.check("OrdLattice<(u8,bool)>", &[(0u8, false), (0, true), (1, false), (1, true)], &|x| OrdLattice(*x), true);
    cx.check("Dual<u8>", if thorough { &all_u8 } else { &sub_u8 }, &|x| Dual(*x), true);
    cx.check_bounded("Dual<u8>", &all_u8, &|x| Dual(*x));
    cx.check("Reverse<u8>", &sub_u8, &|x| Reverse(*x), true);
    cx.check_bounded("Reverse<u8>", &all_u8, &|x| Reverse(*x));
    cx.check("Dual<Dual<u8>>", &small, &|x| Dual(Dual(*x)), true);

    let opt_u8: Vec<Option<u8>> = std::iter::once(None).chain(small.iter().map(|x| Some(*x))).collect();
    cx.check("Option<u8>", &opt_u8, &|x| *x, true);
    cx.check_bounded("Option<u8>", &opt_u8, &|x| *x);
    cx.check_swap("Option<u8>", &opt_u8, &|x| *x);
    cx.check_swap_bounds::<Option<u8>>("Option<u8>");
    let opt_opt: Vec<Option<Option<bool>>> = vec![None, Some(None), Some(Some(false)), Some(Some(true))];
    cx.check("Option<Option<bool>>", &opt_opt, &|x| *x, true);
    cx.check_bounded("Option<Option<bool>>", &opt_opt, &|x| *x);
    let opt_dual: Vec<Option<Dual<u8>>> = std::iter::once(None).chain(small.iter().map(|x| Some(Dual(*x)))).collect();
    cx.check("Option<Dual<u8>>", &opt_dual, &|x| *x, true);
    cx.check_bounded("Option<Dual<u8>>", &opt_dual, &|x| *x);

    // Box / Rc / Arc over a totally ordered and over a partially ordered carrier; "fresh"
    // builds a unique pointer per use (try_unwrap / make_mut without clone), "shared"
    // hands out clones of one allocation (reference count >= 2: the cloning branches).
    let sets3: Vec<Set<u8>> = subsets(3).into_iter().map(Set).collect();
    cx.check("Box<u8>", &small, &|x| Box::new(*x), true);
    cx.check("Box<Set<u8>>", &sets3, &|x| Box::new(x.clone()), true);
    cx.check("Rc<u8>[fresh]", &small, &|x| Rc::new(*x), true);
    cx.check("Arc<u8>[fresh]", &small, &|x| Arc::new(*x), true);
    cx.check("Rc<Set<u8>>[fresh]", &sets3, &|x| Rc::new(x.clone()), true);
    cx.check("Arc<Set<u8>>[fresh]", &sets3, &|x| Arc::new(x.clone()), true);
    let shared_rc: Vec<Rc<Set<u8>>> = sets3.iter().map(|s| Rc::new(s.clone())).collect();
    let shared_arc: Vec<Arc<Set<u8>>> = sets3.iter().map(|s| Arc::new(s.clone())).collect();
    cx.check("Rc<Set<u8>>[shared]", &shared_rc, &|x| x.clone(), true);
    cx.check("Arc<Set<u8>>[shared]", &shared_arc, &|x| x.clone(), true);
    let shared_rc8: Vec<Rc<u8>> = small.iter().map(|s| Rc::new(*s)).collect();
    cx.check("Rc<u8>[shared]", &shared_rc8, &|x| x.clone(), true);
    // the shared originals must be untouched by all of the above (make_mut must have cloned)
    for (s, r) in sets3.iter().zip(shared_rc.iter()) {
        if **r != *s { cx.fail("Rc<Set<u8>>[shared]", "operations never mutate a shared allocation", &[r]); }
    }
    for (s, r) in sets3.iter().zip(shared_arc.iter()) {
        if **r != *s { cx.fail("Arc<Set<u8>>[shared]", "operations never mutate a shared allocation", &[r]); }
    }
    let cp2: Vec<ConstPropagation<u8>> = vec![ConstPropagation::Bottom, ConstPropagation::Constant(0), ConstPropagation::Constant(1), ConstPropagation::Top];
    cx.check("Rc<ConstPropagation<u8>>[fresh]", &cp2, &|x| Rc::new(*x), true);

    // ---- tuples (lexicographic) ------------------------------------------------------------
    let d3: Vec<u8> = vec![0, 1, 2];
    let t1: Vec<(u8,)> = d3.iter().map(|a| (*a,)).collect();
    let mut t2: Vec<(u8, u8)> = vec![];
    let mut t3: Vec<(u8, bool, u8)> = vec![];
    for a in &d3 { for b in &d3 { t2.push((*a, *b)); for c in [false, true] { t3.push((*a, c, *b)); } } }
    cx.check("(u8,)", &t1, &|x| *x, true);
    cx.check("(u8,u8)", &t2, &|x| *x, true);
    cx.check("(u8,bool,u8)", &t3, &|x| *x, true);
    cx.check_bounded("(bool,bool)", &[(false, false), (false, true), (true, false), (true, true)], &|x| *x);
    // tuples whose components are wrappers with an order of their own
    let mut td: Vec<(Dual<u8>, bool)> = vec![];
    let mut tdr: Vec<(bool, Dual<u8>)> = vec![];
    let mut tdd: Vec<(Dual<u8>, Dual<u8>)> = vec![];
    let mut tod: Vec<(Option<u8>, Dual<u8>)> = vec![];
    for a in &d3 { for c in [false, true] { td.push((Dual(*a), c)); tdr.push((c, Dual(*a))); } for b in &d3 { tdd.push((Dual(*a), Dual(*b))); tod.push((if *a == 0 { None } else { Some(*a) }, Dual(*b))); } }
    cx.check("(Dual<u8>,bool)", &td, &|x| *x, true);
    cx.check("(bool,Dual<u8>)", &tdr, &|x| *x, true);
    cx.check("(Dual<u8>,Dual<u8>)", &tdd, &|x| *x, true);
    cx.check("(Option<u8>,Dual<u8>)", &tod, &|x| *x, true);
    cx.check("()", &[()], &|_| (), true);
    cx.check_bounded("()", &[()], &|_| ());

    // ---- Product -----------------------------------------------------------------------------
    let p1: Vec<Product<(u8,)>> = d3.iter().map(|a| Product((*a,))).collect();
    cx.check("Product<(u8,)>", &p1, &|x| *x, true);
    let mut p2: Vec<Product<(u8, Dual<u8>)>> = vec![];
    for a in &d3 { for b in &d3 { p2.push(Product((*a, Dual(*b)))); } }
    cx.check("Product<(u8,Dual<u8>)>", &p2, &|x| *x, true);
    let mut p3: Vec<Product<(bool, u8, Option<bool>)>> = vec![];
    for a in [false, true] { for b in &d3 { for c in [None, Some(false), Some(true)] { p3.push(Product((a, *b, c))); } } }
    cx.check("Product<(bool,u8,Option<bool>)>", &p3, &|x| *x, true);
    let pb: Vec<Product<(bool, bool)>> = vec![Product((false, false)), Product((false, true)), Product((true, false)), Product((true, true))];
    cx.check_bounded("Product<(bool,bool)>", &pb, &|x| *x);
    cx.check_swap("Product<(bool,bool)>", &pb, &|x| *x);
    let mut pa: Vec<Product<[u8; 2]>> = vec![];
    for a in &d3 { for b in &d3 { pa.push(Product([*a, *b])); } }
    cx.check("Product<[u8;2]>", &pa, &|x| *x, true);
    let mut pa3: Vec<Product<[bool; 3]>> = vec![];
    for m in 0..8 { pa3.push(Product([m & 1 != 0, m & 2 != 0, m & 4 != 0])); }
    cx.check("Product<[bool;3]>", &pa3, &|x| *x, true);
    cx.check_bounded("Product<[bool;3]>", &pa3, &|x| *x);
    cx.check("Product<[u8;0]>", &[Product([0u8; 0])], &|x| *x, true);

    // ---- Set / BoundedSet / ConstPropagation ----------------------------------------------
    cx.check("Set<u8>[{0,1,2}]", &sets3, &|x| x.clone(), true);
    if thorough {
        let sets4: Vec<Set<u8>> = subsets(4).into_iter().map(Set).collect();
        cx.check("Set<u8>[{0..3}]", &sets4, &|x| x.clone(), true);
    }
    cx.check_swap("Set<u8>", &sets3, &|x| x.clone());
    fn bsets<const B: usize>(n: u8) -> Vec<BoundedSet<B, u8>> {
        let mut v: Vec<BoundedSet<B, u8>> =
            subsets(n).into_iter().filter(|s| s.len() <= B).map(|s| BoundedSet::from_set(Set(s))).collect();
        v.push(BoundedSet::TOP);
        v
    }
    let b0 = bsets::<0>(3);
    let b1 = bsets::<1>(3);
    let b2 = bsets::<2>(3);
    let b3 = bsets::<3>(3);
    cx.check("BoundedSet<0,u8>", &b0, &|x| x.clone(), true);
    cx.check("BoundedSet<1,u8>", &b1, &|x| x.clone(), true);
    cx.check("BoundedSet<2,u8>", &b2, &|x| x.clone(), true);
    cx.check("BoundedSet<3,u8>", &b3, &|x| x.clone(), true);
    cx.check_bounded("BoundedSet<0,u8>", &b0, &|x| x.clone());
    cx.check_bounded("BoundedSet<1,u8>", &b1, &|x| x.clone());
    cx.check_bounded("BoundedSet<2,u8>", &b2, &|x| x.clone());
    cx.check_swap("BoundedSet<2,u8>", &b2, &|x| x.clone());
    // from_set collapses oversized sets to TOP
    for s in subsets(3) {
        let big = s.len() > 2;
        if BoundedSet::<2, u8>::from_set(Set(s.clone())).is_top() != big { cx.fail("BoundedSet<2,u8>", "from_set is TOP iff above the bound", &[&s]); }
    }
    let cp3: Vec<ConstPropagation<u8>> = vec![ConstPropagation::Bottom, ConstPropagation::Constant(0), ConstPropagation::Constant(1), ConstPropagation::Constant(2), ConstPropagation::Top];
    cx.check("ConstPropagation<u8>", &cp3, &|x| *x, true);
    cx.check_bounded("ConstPropagation<u8>", &cp3, &|x| *x);
    cx.check_swap("ConstPropagation<u8>", &cp3, &|x| *x);
    cx.check_swap_bounds::<ConstPropagation<u8>>("ConstPropagation<u8>");

    // ---- nested compositions ---------------------------------------------------------------
    let sets2: Vec<Set<u8>> = subsets(2).into_iter().map(Set).collect();
    let mut nest1: Vec<Dual<Option<Product<(Set<u8>, ConstPropagation<u8>)>>>> = vec![Dual(None)];
    for s in &sets2 { for c in &cp2 { nest1.push(Dual(Some(Product((s.clone(), *c))))); } }
    cx.check("Dual<Option<Product<(Set<u8>,ConstPropagation<u8>)>>>", &nest1, &|x| x.clone(), true);
    let mut nest2: Vec<Option<Dual<BoundedSet<2, u8>>>> = vec![None];
    for b in &b2 { nest2.push(Some(Dual(b.clone()))); }
    cx.check("Option<Dual<BoundedSet<2,u8>>>", &nest2, &|x| x.clone(), true);
    let mut nest3: Vec<Product<(Option<Dual<u8>>, BoundedSet<1, u8>)>> = vec![];
    for o in [None, Some(Dual(0u8)), Some(Dual(1)), Some(Dual(2))] { for b in &b1 { nest3.push(Product((o, b.clone()))); } }
    cx.check("Product<(Option<Dual<u8>>,BoundedSet<1,u8>)>", &nest3, &|x| x.clone(), true);
    let mut nest4: Vec<Rc<Product<(Set<u8>, Dual<u8>)>>> = vec![];
    for s in &sets2 { for d in 0..3u8 { nest4.push(Rc::new(Product((s.clone(), Dual(d))))); } }
    cx.check("Rc<Product<(Set<u8>,Dual<u8>)>>[shared]", &nest4, &|x| x.clone(), true);
    cx.check("Rc<Product<(Set<u8>,Dual<u8>)>>[fresh]", &nest4, &|x| Rc::new((**x).clone()), true);
    let mut nest5: Vec<Product<[Option<bool>; 2]>> = vec![];
    for a in [None, Some(false), Some(true)] { for b in [None, Some(false), Some(true)] { nest5.push(Product([a, b])); } }
    cx.check("Product<[Option<bool>;2]>", &nest5, &|x| *x, true);
    cx.check_bounded("Product<[Option<bool>;2]>", &nest5, &|x| *x);

    cx.rep.states = cx.cases;
    cx.rep.transitions = cx.ops;
    cx.rep.executions = cx.cases;
    cx.rep.evaluations = cx.cases;
    cx.rep.nontrivial = cx.nontrivial;
    cx.rep.rule = "every ordered pair (and every triple where stated) of each carrier is one case; non-trivial = pair of unequal elements; u8/i8 carriers are complete (256 values), wider integers use boundary values, composite types are complete over their component carriers".into();
    let code = cx.rep.finish(start);
    std::process::exit(code);
}

//! C18 — TrRelUnionFind and UnionFind against reference closures after every history.
use ascent_byods_rels::trrel_union_find::TrRelUnionFind;
use ascent_byods_rels::uf::elems::Id;
use ascent_byods_rels::uf::UnionFind;
use hist::{closure, explore, Machine, Sink};
use std::collections::BTreeSet;
use vcore::report::silence_panics;
use vcore::{json, Report};

const N: usize = 4;

// ---------------------------------------------------------------- TrRelUnionFind
struct Tr<const N: usize> { real: TrRelUnionFind<u8>, pairs: Vec<(usize, usize)> }
impl<const N: usize> Machine for Tr<N> {
    type Op = (u8, u8);
    fn new() -> Self { Tr { real: Default::default(), pairs: vec![] } }
    fn fork(&self, _h: &[Self::Op]) -> Self { Tr { real: self.real.clone(), pairs: self.pairs.clone() } }
    fn apply(&mut self, op: &(u8, u8), hist: &[(u8, u8)], sink: &mut Sink) {
        self.real.add(op.0, op.1);
        self.pairs.push((op.0 as usize, op.1 as usize));
        tr_check::<N>(&self.real, &self.pairs, &format!("{:?}", hist), sink);
    }
    fn outcome(&self) -> String {
        let w = closure(N, &self.pairs, true, false);
        w.iter().map(|r| r.iter().map(|b| if *b { '1' } else { '0' }).collect::<String>()).collect::<Vec<_>>().join("/")
    }
    fn nontrivial(h: &[(u8, u8)]) -> bool {
        // contains a back edge: some (a,b) added when b already reaches a
        let mut pairs: Vec<(usize, usize)> = vec![];
        for &(a, b) in h {
            let w = closure(N, &pairs, true, false);
            if a != b && w[b as usize][a as usize] { return true; }
            pairs.push((a as usize, b as usize));
        }
        false
    }
}

/// every public query of the real structure against the reference closure of the pairs added so far
fn tr_check<const N: usize>(real: &TrRelUnionFind<u8>, pairs: &[(usize, usize)], hist: &str, sink: &mut Sink) {
    {
        let this = TrView { real, pairs };
        let self_ = &this;
        let want = closure(N, self_.pairs, true, false);
        let mentioned: Vec<bool> = (0..N).map(|i| want[i][i]).collect();
        let mut bad = |what: &str, detail: String, sink: &mut Sink| {
            sink.violate(format!("C18|TrRelUnionFind|{}", what), format!("TrRelUnionFind after adds {}: {}", hist, detail),
                json!({"structure": "TrRelUnionFind", "history": hist.to_string(), "query": what}));
        };
        // contains for all pairs
        for x in 0..N { for y in 0..N {
            sink.queries += 1;
            let got = self_.real.contains(&(x as u8), &(y as u8));
            if got != want[x][y] { bad("contains", format!("contains({},{}) = {}, closure says {}", x, y, got, want[x][y]), sink); }
        } }
        // iter_all
        let all: Vec<(u8, u8)> = self_.real.iter_all().map(|(a, b)| (*a, *b)).collect();
        let all_set: BTreeSet<(u8, u8)> = all.iter().cloned().collect();
        let want_set: BTreeSet<(u8, u8)> = (0..N).flat_map(|x| (0..N).map(move |y| (x, y))).filter(|&(x, y)| want[x][y]).map(|(x, y)| (x as u8, y as u8)).collect();
        sink.queries += 1;
        if all_set != want_set { bad("iter_all", format!("iter_all = {:?}, closure = {:?}", all_set, want_set), sink); }
        if all.len() != all_set.len() { bad("iter_all-duplicates", format!("iter_all yields {} pairs, {} distinct", all.len(), all_set.len()), sink); }
        // count_exact
        sink.queries += 1;
        let c = self_.real.count_exact();
        if c != want_set.len() { bad("count_exact", format!("count_exact = {}, closure has {} pairs", c, want_set.len()), sink); }
        // set_of / rev_set_of
        for x in 0..N {
            sink.queries += 2;
            let so: Option<Vec<u8>> = self_.real.set_of(&(x as u8)).map(|i| i.cloned().collect());
            let rso: Option<Vec<u8>> = self_.real.rev_set_of(&(x as u8)).map(|i| i.cloned().collect());
            if !mentioned[x] {
                if so.is_some() || rso.is_some() { bad("set_of-unmentioned", format!("set_of/rev_set_of({}) is Some for an element never added", x), sink); }
                continue;
            }
            let ws: BTreeSet<u8> = (0..N).filter(|&y| want[x][y]).map(|y| y as u8).collect();
            let wr: BTreeSet<u8> = (0..N).filter(|&y| want[y][x]).map(|y| y as u8).collect();
            match so { None => bad("set_of", format!("set_of({}) = None for a mentioned element", x), sink),
                Some(v) => { let s: BTreeSet<u8> = v.iter().cloned().collect();
                    if s != ws { bad("set_of", format!("set_of({}) = {:?}, closure says {:?}", x, s, ws), sink); }
                    if s.len() != v.len() { bad("set_of-duplicates", format!("set_of({}) yields duplicates: {:?}", x, v), sink); } } }
            match rso { None => bad("rev_set_of", format!("rev_set_of({}) = None for a mentioned element", x), sink),
                Some(v) => { let s: BTreeSet<u8> = v.iter().cloned().collect();
                    if s != wr { bad("rev_set_of", format!("rev_set_of({}) = {:?}, closure says {:?}", x, s, wr), sink); }
                    if s.len() != v.len() { bad("rev_set_of-duplicates", format!("rev_set_of({}) yields duplicates: {:?}", x, v), sink); } } }
        }
        if self_.real.is_empty() { bad("is_empty", "is_empty() after an add".into(), sink); }
        // the structure's own invariants (panic on failure; caught by the explorer)
        self_.real.assert_disjoint_invariant();
        self_.real.assert_set_connections_dominant_sets();
    }
}

struct TrView<'a> { real: &'a TrRelUnionFind<u8>, pairs: &'a [(usize, usize)] }

// ---------------------------------------------------------------- TrRelUnionFind from non-initial states: collapse chains
/// Histories `round^r ; add^s`: round i merges element i+1 into the one class built so far by a pair of adds
/// (four variants: through the newest member or through element 0, forward edge first or back edge first), which
/// nests class collapses r deep; then every sequence of s adds over all elements incl. never-mentioned ones.
#[derive(Clone, Debug, PartialEq)]
enum ChainOp { Round(u8), Add(u8, u8) }
struct TrChain<const N: usize, const R: usize, const S: usize> { real: TrRelUnionFind<u8>, pairs: Vec<(usize, usize)>, rounds: usize, suffix: usize }
impl<const N: usize, const R: usize, const S: usize> Machine for TrChain<N, R, S> {
    type Op = ChainOp;
    fn new() -> Self { TrChain { real: Default::default(), pairs: vec![], rounds: 0, suffix: 0 } }
    fn fork(&self, _h: &[ChainOp]) -> Self { TrChain { real: self.real.clone(), pairs: self.pairs.clone(), rounds: self.rounds, suffix: self.suffix } }
    fn enabled(&self, op: &ChainOp) -> bool {
        match op {
            // (for the first round the variants through element 0 coincide with the ones through the newest member)
            ChainOp::Round(v) => self.suffix == 0 && self.rounds < R && (self.rounds > 0 || *v < 2),
            ChainOp::Add(_, _) => self.suffix < S,
        }
    }
    fn apply(&mut self, op: &ChainOp, hist: &[ChainOp], sink: &mut Sink) {
        let adds: Vec<(u8, u8)> = match *op {
            ChainOp::Round(v) => {
                let e = (self.rounds + 1) as u8;
                self.rounds += 1;
                match v { 0 => vec![(e - 1, e), (e, e - 1)], 1 => vec![(e, e - 1), (e - 1, e)], 2 => vec![(0, e), (e, 0)], _ => vec![(e, 0), (0, e)] }
            }
            ChainOp::Add(a, b) => { self.suffix += 1; vec![(a, b)] }
        };
        for (a, b) in adds {
            self.real.add(a, b);
            self.pairs.push((a as usize, b as usize));
            tr_check::<N>(&self.real, &self.pairs, &format!("{:?} = adds {:?}", hist, self.pairs), sink);
        }
    }
    fn outcome(&self) -> String {
        let w = closure(N, &self.pairs, true, false);
        w.iter().map(|r| r.iter().map(|b| if *b { '1' } else { '0' }).collect::<String>()).collect::<Vec<_>>().join("/")
    }
    fn nontrivial(h: &[ChainOp]) -> bool { h.iter().filter(|o| matches!(o, ChainOp::Round(_))).count() >= 2 && matches!(h.last(), Some(ChainOp::Add(_, _))) }
}

// ---------------------------------------------------------------- UnionFind (uf.rs)
#[derive(Clone, Debug)]
enum UfOp { Add(u8), FindItem(u8), UnionAdd(u8, u8), UnionIds(u8, u8), FindId(u8) }
struct Uf { real: UnionFind<u8>, ids: [Option<Id>; N], pairs: Vec<(usize, usize)>, added: [bool; N] }
impl Uf {
    fn step(&mut self, op: &UfOp) {
        match *op {
            UfOp::Add(a) => { let (_new, id) = self.real.add(a); if self.ids[a as usize].is_none() { self.ids[a as usize] = Some(id); } self.added[a as usize] = true; self.pairs.push((a as usize, a as usize)); }
            UfOp::FindItem(a) => { let _ = self.real.find_item(&a); }
            UfOp::UnionAdd(a, b) => {
                // remember the first id an element got (union_add adds missing ones)
                if !self.added[a as usize] { let (_, id) = self.real.add(a); self.ids[a as usize] = Some(id); self.added[a as usize] = true; }
                if !self.added[b as usize] { let (_, id) = self.real.add(b); self.ids[b as usize] = Some(id); self.added[b as usize] = true; }
                self.real.union_add(a, b);
                self.pairs.push((a as usize, b as usize));
            }
            UfOp::UnionIds(a, b) => { unsafe { self.real.union(self.ids[a as usize].unwrap(), self.ids[b as usize].unwrap()); } self.pairs.push((a as usize, b as usize)); }
            UfOp::FindId(a) => { unsafe { self.real.find(self.ids[a as usize].unwrap()); } }
        }
    }
}
impl Machine for Uf {
    type Op = UfOp;
    fn new() -> Self { Uf { real: Default::default(), ids: [None; N], pairs: vec![], added: [false; N] } }
    fn fork(&self, h: &[UfOp]) -> Self { let mut m = Uf::new(); for op in h { m.step(op); } m }
    fn enabled(&self, op: &UfOp) -> bool {
        match *op {
            UfOp::UnionIds(a, b) => self.added[a as usize] && self.added[b as usize],
            UfOp::FindId(a) => self.added[a as usize],
            _ => true,
        }
    }
    fn apply(&mut self, op: &UfOp, hist: &[UfOp], sink: &mut Sink) {
        let was_added = self.added;
        // return values of the operation itself
        let mut bad = |what: &str, detail: String, sink: &mut Sink| {
            sink.violate(format!("C18|UnionFind|{}", what), format!("UnionFind after {:?}: {}", hist, detail), json!({"structure": "UnionFind", "history": format!("{:?}", hist), "query": what}));
        };
        if let UfOp::Add(a) = *op {
            let (new, _) = self.real.add(a);
            if new == was_added[a as usize] { bad("add-return", format!("add({}) returned new={}, but the item was {}present", a, new, if was_added[a as usize] { "" } else { "not " }), sink); }
            // undo nothing: `step` below calls add again, which must then report not-new
        }
        self.step(op);
        let want = closure(N, &self.pairs, true, true);
        let roots: Vec<Option<Id>> = (0..N).map(|x| self.real.find_item(&(x as u8))).collect();
        for x in 0..N {
            sink.queries += 1;
            if roots[x].is_some() != self.added[x] { bad("find_item-presence", format!("find_item({}) is {:?} but added={}", x, roots[x], self.added[x]), sink); }
            for y in 0..N {
                if !(self.added[x] && self.added[y]) { continue; }
                sink.queries += 1;
                let same = roots[x] == roots[y];
                if same != want[x][y] { bad("same-class", format!("{} and {} same class = {}, unions say {}", x, y, same, want[x][y]), sink); }
                // id based find agrees with item based find
                let via_id = unsafe { self.real.find(self.ids[x].unwrap()) };
                if Some(via_id) != roots[x] { bad("find-vs-find_item", format!("find(id of {}) = {:?}, find_item = {:?}", x, via_id, roots[x]), sink); }
            }
        }
        let n_added = self.added.iter().filter(|b| **b).count();
        if self.real.len() != n_added { bad("len", format!("len() = {}, {} distinct items added", self.real.len(), n_added), sink); }
        if self.real.is_empty() != (n_added == 0) { bad("is_empty", format!("is_empty() = {}", self.real.is_empty()), sink); }
        if !self.real.verif_ok() { bad("ok()", "internal consistency check ok() is false".into(), sink); }
        // find is idempotent on roots
        for x in 0..N { if let Some(r) = roots[x] { if unsafe { self.real.find(r) } != r { bad("find-root", format!("find(root of {}) moved", x), sink); } } }
    }
    fn outcome(&self) -> String {
        let w = closure(N, &self.pairs, true, true);
        w.iter().map(|r| r.iter().map(|b| if *b { '1' } else { '0' }).collect::<String>()).collect::<Vec<_>>().join("/")
    }
    fn nontrivial(h: &[UfOp]) -> bool { h.iter().filter(|o| matches!(o, UfOp::UnionAdd(a, b) | UfOp::UnionIds(a, b) if a != b)).count() >= 2 }
}

fn main() {
    let start = std::time::Instant::now();
    silence_panics();
    let mut rep = Report::new("C18", "union-find-histories");
    let thorough = rep.thorough();
    let only: Option<String> = hist::init_replay().and_then(|r| r["structure"].as_str().or(r["machine"].as_str()).map(|s| s.trim_start_matches("C18|").split('[').next().unwrap().to_string()));
    let want = |s: &str| only.as_ref().map_or(true, |o| o == s);

    if want("TrRelUnionFind") {
        let ops: Vec<(u8, u8)> = (0..N as u8).flat_map(|a| (0..N as u8).map(move |b| (a, b))).collect();
        explore::<Tr<4>>("C18|TrRelUnionFind", &ops, if thorough { 7 } else { 6 }, &mut rep);
        let ops5: Vec<(u8, u8)> = (0..5u8).flat_map(|a| (0..5u8).map(move |b| (a, b))).collect();
        explore::<Tr<5>>("C18|TrRelUnionFind[5 elems]", &ops5, if thorough { 5 } else { 4 }, &mut rep);
        // non-initial states: nested class collapses, then every add (thorough: every pair of adds after <= 5 rounds)
        fn chain_ops(n: u8) -> Vec<ChainOp> { let mut v: Vec<ChainOp> = (0..4).map(ChainOp::Round).collect(); for a in 0..n { for b in 0..n { v.push(ChainOp::Add(a, b)); } } v }
        if thorough {
            explore::<TrChain<10, 8, 1>>("C18|TrRelUnionFind[collapse chains]", &chain_ops(10), 9, &mut rep);
            explore::<TrChain<7, 5, 2>>("C18|TrRelUnionFind[collapse chains, two adds]", &chain_ops(7), 7, &mut rep);
        } else {
            explore::<TrChain<9, 7, 1>>("C18|TrRelUnionFind[collapse chains]", &chain_ops(9), 8, &mut rep);
        }
    }
    if want("UnionFind") {
        let mut ops: Vec<UfOp> = vec![];
        for a in 0..N as u8 { ops.push(UfOp::Add(a)); }
        for a in 0..N as u8 { ops.push(UfOp::FindItem(a)); }
        for a in 0..N as u8 { for b in 0..N as u8 { if a != b { ops.push(UfOp::UnionAdd(a, b)); } } }
        explore::<Uf>("C18|UnionFind", &ops, if thorough { 6 } else { 5 }, &mut rep);
        // id-based operations over three elements
        let mut ops: Vec<UfOp> = vec![];
        for a in 0..3u8 { ops.push(UfOp::Add(a)); ops.push(UfOp::FindId(a)); ops.push(UfOp::FindItem(a)); }
        for a in 0..3u8 { for b in 0..3u8 { if a != b { ops.push(UfOp::UnionIds(a, b)); } } }
        ops.push(UfOp::UnionAdd(3, 0));
        ops.push(UfOp::UnionAdd(1, 3));
        explore::<Uf>("C18|UnionFind[ids]", &ops, if thorough { 6 } else { 5 }, &mut rep);
    }
    rep.rule = "every operation sequence up to the depth bound over 4 elements is one history (plus the collapse-chain family: r <= 7 nested class collapses in each of 4 orders, then every add over 9 elements); after every operation every public query is compared with the reference closure / partition; non-trivial = history with a back edge (TrRelUnionFind) or >= 2 proper unions".into();
    let code = rep.finish(start);
    std::process::exit(code);
}

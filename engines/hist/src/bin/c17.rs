//! C17 — library aggregators, exhaustively over all short input sequences (engine H).
use ascent::aggregators::{count, max, mean, min, not, percentile, sum};
use vcore::report::{catch, silence_panics};
use vcore::{json, Report};

/// Iterator wrapper controlling what `size_hint` reports.
#[derive(Clone, Copy, Debug, PartialEq)]
enum Hint { Exact, LowerOnly, Absent, Loose }
struct Hinted<I> { inner: I, hint: Hint, left: usize }
impl<I: Iterator> Iterator for Hinted<I> {
    type Item = I::Item;
    fn next(&mut self) -> Option<I::Item> {
        let r = self.inner.next();
        if r.is_some() { self.left -= 1; }
        r
    }
    fn size_hint(&self) -> (usize, Option<usize>) {
        match self.hint {
            Hint::Exact => (self.left, Some(self.left)),
            Hint::LowerOnly => (self.left, None),
            Hint::Absent => (0, None),
            Hint::Loose => (self.left / 2, Some(self.left + 1)),
        }
    }
}
fn hinted<'a>(v: &'a [i32], hint: Hint) -> Hinted<impl Iterator<Item = (&'a i32,)>> {
    Hinted { inner: v.iter().map(|x| (x,)), hint, left: v.len() }
}
fn hinted_unit(n: usize, hint: Hint) -> Hinted<impl Iterator<Item = ()>> {
    Hinted { inner: (0..n).map(|_| ()), hint, left: n }
}

fn main() {
    let start = std::time::Instant::now();
    silence_panics();
    let mut rep = Report::new("C17", "aggregators");
    let thorough = rep.thorough();
    let alphabet: [i32; 4] = [-1, 0, 1, 2];
    let max_len = if thorough { 7 } else { 6 };
    let hints = [Hint::Exact, Hint::LowerOnly, Hint::Absent, Hint::Loose];

    // percentile parameters: both end points, a 0.5-step grid, and every rank boundary
    // 100*k/len +- 1e-6 (computed per length below)
    let grid: Vec<f64> = (0..=200).map(|i| i as f64 * 0.5).collect();

    let only_seq: Option<Vec<i32>> = vcore::report::replay_arg()
        .map(|r| r["input"].as_array().unwrap().iter().map(|x| x.as_i64().unwrap() as i32).collect());
    let mut seq: Vec<i32> = vec![];
    let mut stack: Vec<usize> = vec![0];
    let mut sequences = 0u64;
    let mut calls = 0u64;
    let mut nontrivial = 0u64;
    // iterative DFS over all sequences of length <= max_len (shortest prefix first)
    loop {
        // visit `seq`
        if only_seq.as_ref().map_or(true, |o| *o == seq) {
        sequences += 1;
        let n = seq.len();
        let mut sorted = seq.clone();
        sorted.sort();
        let distinct = { let mut d = sorted.clone(); d.dedup(); d.len() };
        if distinct >= 2 { nontrivial += 1; }
        let isum: i64 = seq.iter().map(|x| *x as i64).sum();
        for &h in &hints {
            let tag = format!("{:?}", h);
            let mut chk = |name: &str, got: Result<Vec<String>, String>, want: Vec<String>, rep: &mut Report| {
                calls += 1;
                match got {
                    Err(p) => rep.violate(format!("C17|{}|panic", name), format!("{} panicked on {:?} (size_hint {}): {}", name, seq, tag, p),
                        json!({"aggregator": name, "input": seq, "hint": tag, "panic": p})),
                    Ok(g) => if g != want {
                        rep.violate(format!("C17|{}|wrong-result", name), format!("{} on {:?} (size_hint {}) yielded {:?}, definition says {:?}", name, seq, tag, g, want),
                            json!({"aggregator": name, "input": seq, "hint": tag, "got": g, "want": want}))
                    },
                }
            };
            let s = |v: Vec<i32>| v.into_iter().map(|x| x.to_string()).collect::<Vec<_>>();
            chk("min", catch(|| s(min(hinted(&seq, h)).collect())), s(sorted.first().cloned().into_iter().collect()), &mut rep);
            chk("max", catch(|| s(max(hinted(&seq, h)).collect())), s(sorted.last().cloned().into_iter().collect()), &mut rep);
            chk("sum", catch(|| s(sum(hinted(&seq, h)).collect())), vec![isum.to_string()], &mut rep);
            chk("count", catch(|| count(hinted_unit(n, h)).map(|c| c.to_string()).collect()), vec![n.to_string()], &mut rep);
            let want_mean = if n == 0 { vec![] } else { vec![format!("{:?}", isum as f64 / n as f64)] };
            chk("mean", catch(|| mean(hinted(&seq, h)).map(|m| format!("{:?}", m)).collect()), want_mean, &mut rep);
            chk("not", catch(|| not(hinted_unit(n, h)).map(|_| "()".to_string()).collect()), if n == 0 { vec!["()".into()] } else { vec![] }, &mut rep);
        }
        // percentile: every p of the grid plus the rank boundaries of this length
        let mut ps = grid.clone();
        for k in 0..=n { if n > 0 { let b = 100.0 * k as f64 / n as f64; for d in [-1e-6, 1e-6] { let p = b + d; if (0.0..=100.0).contains(&p) { ps.push(p); } } } }
        for &p in &ps {
            calls += 1;
            let want: Vec<i32> = if n == 0 { vec![] } else {
                let idx = ((n as f64 * p / 100.0) as usize).min(n - 1);
                vec![sorted[idx]]
            };
            let pclass = if p == 100.0 { "p=100" } else if p == 0.0 { "p=0" } else { "0<p<100" };
            match catch(|| percentile(p)(hinted(&seq, Hint::Exact)).collect::<Vec<i32>>()) {
                Err(msg) => rep.violate(format!("C17|percentile({})|panic", pclass), format!("percentile({}) panicked on {:?}: {}", p, seq, msg),
                    json!({"aggregator": "percentile", "p": p, "input": seq, "panic": msg})),
                Ok(g) => if g != want {
                    rep.violate(format!("C17|percentile({})|wrong-result", pclass), format!("percentile({}) on {:?} yielded {:?}, rank definition says {:?}", p, seq, g, want),
                        json!({"aggregator": "percentile", "p": p, "input": seq, "got": g, "want": want}))
                },
            }
        }
        if sequences == 1 || sequences == 100 || sequences == 2000 {
            rep.sample(json!({"input": seq, "sorted": sorted, "percentile_params": ps.len()}));
        }
        }
        // advance
        if seq.len() < max_len {
            seq.push(alphabet[0]);
            stack.push(0);
        } else {
            loop {
                let Some(top) = stack.pop() else { break };
                if stack.is_empty() { stack.push(usize::MAX); break; }
                seq.pop();
                if top + 1 < alphabet.len() {
                    seq.push(alphabet[top + 1]);
                    stack.push(top + 1);
                    break;
                }
            }
            if stack.last() == Some(&usize::MAX) { break; }
        }
    }
    // long inputs: n distinct values in descending order, every p of a quarter-step grid; the rank is computed
    // in integer arithmetic (n * 4p / 400), which is what the real-number definition floor(n * p / 100) gives
    let long_max: usize = if thorough { 400 } else { 128 };
    for n in (max_len + 1)..=long_max {
        let seq: Vec<i32> = (0..n as i32).rev().collect();
        if only_seq.as_ref().map_or(false, |o| *o != seq) { continue; }
        sequences += 1;
        nontrivial += 1;
        for q in 0..=400usize {
            let p = q as f64 / 4.0;
            calls += 1;
            let want = vec![((n * q) / 400).min(n - 1) as i32];
            let pclass = if q == 400 { "p=100" } else if q == 0 { "p=0" } else { "0<p<100" };
            match catch(|| percentile(p)(hinted(&seq, Hint::Exact)).collect::<Vec<i32>>()) {
                Err(msg) => rep.violate(format!("C17|percentile({})|panic", pclass), format!("percentile({}) panicked on the {} values {}..=0: {}", p, n, n - 1, msg),
                    json!({"aggregator": "percentile", "p": p, "input": seq, "panic": msg})),
                Ok(g) => if g != want {
                    rep.violate(format!("C17|percentile({})|wrong-result", pclass), format!("percentile({}) on the {} values {}..=0 yielded {:?}, rank definition says {:?}", p, n, n - 1, g, want),
                        json!({"aggregator": "percentile", "p": p, "input": seq, "got": g, "want": want}))
                },
            }
        }
    }
    rep.extra("long_inputs_up_to", long_max as u64);
    rep.states = sequences;
    rep.transitions = calls;
    rep.executions = calls;
    rep.evaluations = sequences;
    rep.nontrivial = nontrivial;
    rep.extra("max_len", max_len as u64);
    rep.extra("alphabet", json!(alphabet));
    rep.extra("size_hint_shapes", json!(["Exact", "LowerOnly", "Absent", "Loose"]));
    rep.rule = "every sequence over {-1,0,1,2} up to max_len (every multiset in every order) is one case, fed through four size_hint shapes; percentile over a 0.5-step grid of p plus every rank boundary +-1e-6; plus, for percentile, n distinct values for every n up to long_inputs_up_to and every p of a 0.25-step grid with the rank computed in integer arithmetic; non-trivial = at least two distinct values".into();
    let code = rep.finish(start);
    std::process::exit(code);
}

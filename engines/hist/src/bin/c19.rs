//! C19 (serial part) — every exported index building block against a reference multimap,
//! over all operation histories (insert / insert-if-absent / merge / move / freeze) up to a depth bound.
use ascent::internal::{
    CLatIndex, CRelFullIndex, CRelFullIndexWrite, CRelIndex, CRelIndexRead, CRelIndexReadAll, CRelIndexWrite, CRelNoIndex,
    Freezable, LatticeIndexType, RelFullIndexRead, RelFullIndexType, RelFullIndexWrite, RelIndexCombined, RelIndexMerge,
    RelIndexRead, RelIndexReadAll, RelIndexType1, RelIndexWrite, RelNoIndexType, ToRelIndex0,
};
use ascent::rayon::iter::ParallelIterator;
use ascent::rel::ToRelIndexType;
use hist::{explore, Machine, Sink};
use std::collections::BTreeMap;
use vcore::report::silence_panics;
use vcore::{json, Report};

type K = u32;
type V = usize;
type Ref = BTreeMap<K, Vec<V>>; // per key: values (sorted on comparison)

#[derive(Clone, Copy, PartialEq, Debug)]
enum Kind { Multi, Set, Full, NoIndex }

/// Adapter over one index type; `None` = operation not offered by the type.
trait Idx: Sized {
    const NAME: &'static str;
    const KIND: Kind;
    const CONCURRENT: bool;
    fn new() -> Self;
    fn clone_via(&self) -> Option<Self> { None }
    fn insert_mut(&mut self, k: K, v: V);
    fn insert_shared(&self, _k: K, _v: V) -> Option<()> { None }
    fn ina_mut(&mut self, _k: K, _v: V) -> Option<bool> { None }
    fn ina_shared(&self, _k: K, _v: V) -> Option<bool> { None }
    fn get(&self, k: K) -> Option<Vec<V>>;
    fn all(&self) -> Vec<(K, Vec<V>)>;
    fn c_get(&self, _k: K) -> Option<Option<Vec<V>>> { None }
    fn c_all(&self) -> Option<Vec<(K, Vec<V>)>> { None }
    fn contains(&self, _k: K) -> Option<bool> { None }
    fn is_empty_hint(&self) -> bool;
    fn len_est(&self) -> usize;
    fn freeze(&mut self) {}
    fn unfreeze(&mut self) {}
    fn mv(from: &mut Self, to: &mut Self);
    fn merge(new: &mut Self, delta: &mut Self, total: &mut Self);
    /// reads through RelIndexCombined(total, delta): (index_get per key, iter_all flattened)
    fn combined(total: &Self, delta: &Self, keys: &[K]) -> Option<(Vec<Option<Vec<V>>>, Vec<(K, Vec<V>)>, bool)>;
}

macro_rules! read_impl {
    () => {
        fn get(&self, k: K) -> Option<Vec<V>> { RelIndexRead::index_get(self, &k).map(|it| it.map(|v| v.clone()).collect()) }
        fn all(&self) -> Vec<(K, Vec<V>)> { RelIndexReadAll::iter_all(self).map(|(k, vs)| (k.clone(), vs.map(|v| v.clone()).collect())).collect() }
        fn is_empty_hint(&self) -> bool { RelIndexRead::is_empty(self) }
        fn len_est(&self) -> usize { RelIndexRead::len_estimate(self) }
        fn mv(from: &mut Self, to: &mut Self) { RelIndexMerge::move_index_contents(from, to) }
        fn merge(new: &mut Self, delta: &mut Self, total: &mut Self) { RelIndexMerge::merge_delta_to_total_new_to_delta(new, delta, total) }
        fn combined(total: &Self, delta: &Self, keys: &[K]) -> Option<(Vec<Option<Vec<V>>>, Vec<(K, Vec<V>)>, bool)> {
            let c = RelIndexCombined::new(total, delta);
            let gets = keys.iter().map(|k| c.index_get(k).map(|it| it.map(|v| v.clone()).collect())).collect();
            let all = c.iter_all().map(|(k, vs)| (k.clone(), vs.map(|v| v.clone()).collect())).collect();
            Some((gets, all, RelIndexRead::is_empty(&c)))
        }
    };
}
macro_rules! c_read_impl {
    () => {
        fn c_get(&self, k: K) -> Option<Option<Vec<V>>> { Some(CRelIndexRead::c_index_get(self, &k).map(|it| it.map(|v| v.clone()).collect())) }
        fn c_all(&self) -> Option<Vec<(K, Vec<V>)>> { Some(CRelIndexReadAll::c_iter_all(self).map(|(k, vs)| (k.clone(), vs.map(|v| v.clone()).collect::<Vec<V>>())).collect()) }
        fn freeze(&mut self) { Freezable::freeze(self) }
        fn unfreeze(&mut self) { Freezable::unfreeze(self) }
    };
}

impl Idx for RelIndexType1<K, V> {
    const NAME: &'static str = "RelIndexType1"; const KIND: Kind = Kind::Multi; const CONCURRENT: bool = false;
    fn new() -> Self { Default::default() }
    fn clone_via(&self) -> Option<Self> { Some(self.clone()) }
    fn insert_mut(&mut self, k: K, v: V) { RelIndexWrite::index_insert(self, k, v) }
    read_impl!();
}
/// ToRelIndexType is reached the way generated code does: through to_rel_index / to_rel_index_write
struct ToRel(ToRelIndexType<K, V>);
impl Idx for ToRel {
    const NAME: &'static str = "ToRelIndexType"; const KIND: Kind = Kind::Multi; const CONCURRENT: bool = false;
    fn new() -> Self { ToRel(Default::default()) }
    fn clone_via(&self) -> Option<Self> { Some(ToRel(self.0.clone())) }
    fn insert_mut(&mut self, k: K, v: V) { let mut r = (); let mut w = ToRelIndex0::to_rel_index_write(&mut self.0, &mut r); RelIndexWrite::index_insert(&mut w, k, v) }
    fn get(&self, k: K) -> Option<Vec<V>> { let i = ToRelIndex0::to_rel_index(&self.0, &()); i.index_get(&k).map(|it| it.cloned().collect()) }
    fn all(&self) -> Vec<(K, Vec<V>)> { let i = ToRelIndex0::to_rel_index(&self.0, &()); i.iter_all().map(|(k, vs)| (*k, vs.cloned().collect())).collect() }
    fn is_empty_hint(&self) -> bool { let i = ToRelIndex0::to_rel_index(&self.0, &()); RelIndexRead::is_empty(&i) }
    fn len_est(&self) -> usize { let i = ToRelIndex0::to_rel_index(&self.0, &()); i.len_estimate() }
    fn mv(from: &mut Self, to: &mut Self) {
        let (mut r1, mut r2) = ((), ());
        let mut f = ToRelIndex0::to_rel_index_write(&mut from.0, &mut r1);
        let mut t = ToRelIndex0::to_rel_index_write(&mut to.0, &mut r2);
        RelIndexMerge::move_index_contents(&mut f, &mut t)
    }
    fn merge(new: &mut Self, delta: &mut Self, total: &mut Self) {
        let (mut r1, mut r2, mut r3) = ((), (), ());
        let mut n = ToRelIndex0::to_rel_index_write(&mut new.0, &mut r1);
        let mut d = ToRelIndex0::to_rel_index_write(&mut delta.0, &mut r2);
        let mut t = ToRelIndex0::to_rel_index_write(&mut total.0, &mut r3);
        RelIndexMerge::merge_delta_to_total_new_to_delta(&mut n, &mut d, &mut t)
    }
    fn combined(total: &Self, delta: &Self, keys: &[K]) -> Option<(Vec<Option<Vec<V>>>, Vec<(K, Vec<V>)>, bool)> {
        let t = ToRelIndex0::to_rel_index(&total.0, &());
        let d = ToRelIndex0::to_rel_index(&delta.0, &());
        let c = RelIndexCombined::new(&t, &d);
        let gets = keys.iter().map(|k| c.index_get(k).map(|it| it.cloned().collect())).collect();
        let all = c.iter_all().map(|(k, vs)| (*k, vs.cloned().collect())).collect();
        Some((gets, all, RelIndexRead::is_empty(&c)))
    }
}
impl Idx for RelFullIndexType<K, V> {
    const NAME: &'static str = "RelFullIndexType"; const KIND: Kind = Kind::Full; const CONCURRENT: bool = false;
    fn new() -> Self { Default::default() }
    fn clone_via(&self) -> Option<Self> { Some(self.clone()) }
    fn insert_mut(&mut self, k: K, v: V) { RelIndexWrite::index_insert(self, k, v) }
    fn ina_mut(&mut self, k: K, v: V) -> Option<bool> { Some(RelFullIndexWrite::insert_if_not_present(self, &k, v)) }
    fn contains(&self, k: K) -> Option<bool> { Some(RelFullIndexRead::contains_key(self, &k)) }
    read_impl!();
}
impl Idx for LatticeIndexType<K, V> {
    const NAME: &'static str = "LatticeIndexType"; const KIND: Kind = Kind::Set; const CONCURRENT: bool = false;
    fn new() -> Self { Default::default() }
    fn clone_via(&self) -> Option<Self> { Some(self.clone()) }
    fn insert_mut(&mut self, k: K, v: V) { RelIndexWrite::index_insert(self, k, v) }
    read_impl!();
}
struct NoIdx(RelNoIndexType);
impl Idx for NoIdx {
    const NAME: &'static str = "RelNoIndexType"; const KIND: Kind = Kind::NoIndex; const CONCURRENT: bool = false;
    fn new() -> Self { NoIdx(vec![]) }
    fn clone_via(&self) -> Option<Self> { Some(NoIdx(self.0.clone())) }
    fn insert_mut(&mut self, _k: K, v: V) { RelIndexWrite::index_insert(&mut self.0, (), v) }
    // no read trait is implemented for Vec<usize>: the vector is the content
    fn get(&self, _k: K) -> Option<Vec<V>> { if self.0.is_empty() { None } else { Some(self.0.clone()) } }
    fn all(&self) -> Vec<(K, Vec<V>)> { if self.0.is_empty() { vec![] } else { vec![(0, self.0.clone())] } }
    fn is_empty_hint(&self) -> bool { self.0.is_empty() }
    fn len_est(&self) -> usize { self.0.len() }
    fn mv(from: &mut Self, to: &mut Self) { RelIndexMerge::move_index_contents(&mut from.0, &mut to.0) }
    fn merge(new: &mut Self, delta: &mut Self, total: &mut Self) { RelIndexMerge::merge_delta_to_total_new_to_delta(&mut new.0, &mut delta.0, &mut total.0) }
    fn combined(_t: &Self, _d: &Self, _k: &[K]) -> Option<(Vec<Option<Vec<V>>>, Vec<(K, Vec<V>)>, bool)> { None }
}
impl Idx for CRelIndex<K, V> {
    const NAME: &'static str = "CRelIndex"; const KIND: Kind = Kind::Multi; const CONCURRENT: bool = true;
    fn new() -> Self { Default::default() }
    fn insert_mut(&mut self, k: K, v: V) { RelIndexWrite::index_insert(self, k, v) }
    fn insert_shared(&self, k: K, v: V) -> Option<()> { CRelIndexWrite::index_insert(self, k, v); Some(()) }
    read_impl!();
    c_read_impl!();
}
impl Idx for CRelFullIndex<K, V> {
    const NAME: &'static str = "CRelFullIndex"; const KIND: Kind = Kind::Full; const CONCURRENT: bool = true;
    fn new() -> Self { Default::default() }
    fn insert_mut(&mut self, k: K, v: V) { RelIndexWrite::index_insert(self, k, v) }
    fn insert_shared(&self, k: K, v: V) -> Option<()> { CRelIndexWrite::index_insert(self, k, v); Some(()) }
    fn ina_mut(&mut self, k: K, v: V) -> Option<bool> { Some(RelFullIndexWrite::insert_if_not_present(self, &k, v)) }
    fn ina_shared(&self, k: K, v: V) -> Option<bool> { Some(CRelFullIndexWrite::insert_if_not_present(self, &k, v)) }
    fn contains(&self, k: K) -> Option<bool> { Some(RelFullIndexRead::contains_key(self, &k)) }
    fn get(&self, k: K) -> Option<Vec<V>> { RelIndexRead::index_get(self, &k).map(|it| it.map(|v| v.clone()).collect()) }
    fn all(&self) -> Vec<(K, Vec<V>)> { RelIndexReadAll::iter_all(self).map(|(k, vs)| (k.clone(), vs.collect())).collect() }
    fn is_empty_hint(&self) -> bool { RelIndexRead::is_empty(self) }
    fn len_est(&self) -> usize { RelIndexRead::len_estimate(self) }
    fn mv(from: &mut Self, to: &mut Self) { RelIndexMerge::move_index_contents(from, to) }
    fn merge(new: &mut Self, delta: &mut Self, total: &mut Self) { RelIndexMerge::merge_delta_to_total_new_to_delta(new, delta, total) }
    fn combined(total: &Self, delta: &Self, keys: &[K]) -> Option<(Vec<Option<Vec<V>>>, Vec<(K, Vec<V>)>, bool)> {
        let c = RelIndexCombined::new(total, delta);
        let gets = keys.iter().map(|k| c.index_get(k).map(|it| it.map(|v| v.clone()).collect())).collect();
        let all = c.iter_all().map(|(k, vs)| (k.clone(), vs.collect())).collect();
        Some((gets, all, RelIndexRead::is_empty(&c)))
    }
    c_read_impl!();
}
impl Idx for CLatIndex<K, V> {
    const NAME: &'static str = "CLatIndex"; const KIND: Kind = Kind::Set; const CONCURRENT: bool = true;
    fn new() -> Self { Default::default() }
    fn insert_mut(&mut self, k: K, v: V) { RelIndexWrite::index_insert(self, k, v) }
    fn insert_shared(&self, k: K, v: V) -> Option<()> { CRelIndexWrite::index_insert(self, k, v); Some(()) }
    fn get(&self, k: K) -> Option<Vec<V>> { RelIndexRead::index_get(self, &k).map(|it| it.map(|v| v.clone()).collect()) }
    fn all(&self) -> Vec<(K, Vec<V>)> { RelIndexReadAll::iter_all(self).map(|(k, vs)| (k.clone(), vs.collect())).collect() }
    fn is_empty_hint(&self) -> bool { RelIndexRead::is_empty(self) }
    fn len_est(&self) -> usize { RelIndexRead::len_estimate(self) }
    fn mv(from: &mut Self, to: &mut Self) { RelIndexMerge::move_index_contents(from, to) }
    fn merge(new: &mut Self, delta: &mut Self, total: &mut Self) { RelIndexMerge::merge_delta_to_total_new_to_delta(new, delta, total) }
    fn combined(total: &Self, delta: &Self, keys: &[K]) -> Option<(Vec<Option<Vec<V>>>, Vec<(K, Vec<V>)>, bool)> {
        let c = RelIndexCombined::new(total, delta);
        let gets = keys.iter().map(|k| c.index_get(k).map(|it| it.map(|v| v.clone()).collect())).collect();
        let all = c.iter_all().map(|(k, vs)| (k.clone(), vs.collect())).collect();
        Some((gets, all, RelIndexRead::is_empty(&c)))
    }
    c_read_impl!();
}
impl Idx for CRelNoIndex<V> {
    const NAME: &'static str = "CRelNoIndex"; const KIND: Kind = Kind::NoIndex; const CONCURRENT: bool = true;
    fn new() -> Self { Default::default() }
    fn insert_mut(&mut self, _k: K, v: V) { RelIndexWrite::index_insert(self, (), v) }
    fn insert_shared(&self, _k: K, v: V) -> Option<()> { CRelIndexWrite::index_insert(self, (), v); Some(()) }
    fn get(&self, _k: K) -> Option<Vec<V>> { RelIndexRead::index_get(self, &()).map(|it| it.cloned().collect()) }
    fn all(&self) -> Vec<(K, Vec<V>)> { RelIndexReadAll::iter_all(self).map(|(_, vs)| (0, vs.cloned().collect())).collect() }
    fn c_get(&self, _k: K) -> Option<Option<Vec<V>>> { Some(CRelIndexRead::c_index_get(self, &()).map(|it| it.cloned().collect())) }
    fn c_all(&self) -> Option<Vec<(K, Vec<V>)>> { Some(CRelIndexReadAll::c_iter_all(self).map(|(_, vs)| (0, vs.cloned().collect::<Vec<V>>())).collect()) }
    fn is_empty_hint(&self) -> bool { RelIndexRead::is_empty(self) }
    fn len_est(&self) -> usize { RelIndexRead::len_estimate(self) }
    fn freeze(&mut self) { Freezable::freeze(self) }
    fn unfreeze(&mut self) { Freezable::unfreeze(self) }
    fn mv(from: &mut Self, to: &mut Self) { RelIndexMerge::move_index_contents(from, to) }
    fn merge(new: &mut Self, delta: &mut Self, total: &mut Self) { RelIndexMerge::merge_delta_to_total_new_to_delta(new, delta, total) }
    fn combined(total: &Self, delta: &Self, _keys: &[K]) -> Option<(Vec<Option<Vec<V>>>, Vec<(K, Vec<V>)>, bool)> {
        let c = RelIndexCombined::new(total, delta);
        let gets = vec![c.index_get(&()).map(|it| it.cloned().collect())];
        let all = c.iter_all().map(|(_, vs)| (0, vs.cloned().collect())).collect();
        Some((gets, all, RelIndexRead::is_empty(&c)))
    }
}

// ------------------------------------------------------------------------------------------------
#[derive(Clone, Debug, PartialEq)]
enum Op {
    Ins(u8, u8, u8),        // version (0 new, 1 delta, 2 total), key index, value
    InsShared(u8, u8, u8),  // through the &self (concurrent) write trait
    Ina(u8, u8),            // insert_if_not_present(&mut) version, key
    InaShared(u8, u8),
    Merge,
    Move(u8, u8),
    Freeze(u8),
    Unfreeze(u8),
}

static KEYS: std::sync::OnceLock<Vec<K>> = std::sync::OnceLock::new();
fn key(i: u8) -> K { KEYS.get().unwrap()[i as usize] }

struct M<I: Idx> { v: [I; 3], r: [Ref; 3], frozen: [bool; 3] }

fn norm(kind: Kind, r: &Ref) -> BTreeMap<K, Vec<V>> {
    let mut out = BTreeMap::new();
    for (k, vs) in r {
        let mut vs = vs.clone();
        vs.sort();
        if kind == Kind::Set || kind == Kind::Full { vs.dedup(); }
        if !vs.is_empty() { out.insert(if kind == Kind::NoIndex { 0 } else { *k }, vs); }
    }
    out
}
fn norm_all(kind: Kind, all: &[(K, Vec<V>)]) -> (BTreeMap<K, Vec<V>>, bool) {
    // returns the content and whether a key appeared twice in the iteration
    let mut out: BTreeMap<K, Vec<V>> = BTreeMap::new();
    let mut dup_key = false;
    for (k, vs) in all {
        if vs.is_empty() { continue; }
        let e = out.entry(*k).or_default();
        if !e.is_empty() { dup_key = true; }
        e.extend(vs.iter().cloned());
    }
    for vs in out.values_mut() { vs.sort(); if kind == Kind::Set { let n = vs.len(); vs.dedup(); if vs.len() != n { dup_key = true; } } }
    (out, dup_key)
}
fn ref_union(a: &Ref, b: &Ref) -> Ref {
    let mut o = a.clone();
    for (k, vs) in b { o.entry(*k).or_default().extend(vs.iter().cloned()); }
    o
}

impl<I: Idx> M<I> {
    fn step(&mut self, op: &Op) -> Option<(bool, bool)> {
        // returns (got, want) for insert-if-absent operations
        match *op {
            Op::Ins(ver, k, v) => {
                let v = if I::KIND == Kind::Full { 100 + k as usize } else { v as usize };
                self.v[ver as usize].insert_mut(key(k), v);
                ref_insert(I::KIND, &mut self.r[ver as usize], key(k), v);
                None
            }
            Op::InsShared(ver, k, v) => {
                let v = if I::KIND == Kind::Full { 100 + k as usize } else { v as usize };
                self.v[ver as usize].insert_shared(key(k), v).unwrap();
                ref_insert(I::KIND, &mut self.r[ver as usize], key(k), v);
                None
            }
            Op::Ina(ver, k) => {
                let v = 100 + k as usize;
                let want = !self.r[ver as usize].contains_key(&key(k));
                let got = self.v[ver as usize].ina_mut(key(k), v).unwrap();
                if want { self.r[ver as usize].insert(key(k), vec![v]); }
                // the &mut variant of CRelFullIndex unfreezes the index
                if I::CONCURRENT { self.frozen[ver as usize] = false; }
                Some((got, want))
            }
            Op::InaShared(ver, k) => {
                let v = 100 + k as usize;
                let want = !self.r[ver as usize].contains_key(&key(k));
                let got = self.v[ver as usize].ina_shared(key(k), v).unwrap();
                if want { self.r[ver as usize].insert(key(k), vec![v]); }
                Some((got, want))
            }
            Op::Merge => {
                let (a, rest) = self.v.split_at_mut(1);
                let (b, c) = rest.split_at_mut(1);
                I::merge(&mut a[0], &mut b[0], &mut c[0]);
                let new_total = ref_union(&self.r[2], &self.r[1]);
                let new_delta = std::mem::take(&mut self.r[0]);
                self.r = [Ref::new(), new_delta, new_total];
                // CRelNoIndex: the default merge swaps the whole structs, frozen flag included
                if I::KIND == Kind::NoIndex { self.frozen.swap(0, 1); }
                None
            }
            Op::Move(f, t) => {
                let (f, t) = (f as usize, t as usize);
                let (x, y) = if f < t { let (a, b) = self.v.split_at_mut(t); (&mut a[f], &mut b[0]) } else { let (a, b) = self.v.split_at_mut(f); (&mut b[0], &mut a[t]) };
                I::mv(x, y);
                let moved = std::mem::take(&mut self.r[f]);
                self.r[t] = ref_union(&self.r[t], &moved);
                None
            }
            Op::Freeze(ver) => { self.v[ver as usize].freeze(); self.frozen[ver as usize] = true; None }
            Op::Unfreeze(ver) => { self.v[ver as usize].unfreeze(); self.frozen[ver as usize] = false; None }
        }
    }
}
fn ref_insert(kind: Kind, r: &mut Ref, k: K, v: V) {
    match kind {
        Kind::Full => { r.insert(k, vec![v]); }
        Kind::NoIndex => { r.entry(0).or_default().push(v); }
        _ => { r.entry(k).or_default().push(v); }
    }
}

impl<I: Idx> Machine for M<I> {
    type Op = Op;
    fn new() -> Self { M { v: [I::new(), I::new(), I::new()], r: Default::default(), frozen: [false; 3] } }
    fn fork(&self, hist: &[Op]) -> Self {
        if let (Some(a), Some(b), Some(c)) = (self.v[0].clone_via(), self.v[1].clone_via(), self.v[2].clone_via()) {
            return M { v: [a, b, c], r: self.r.clone(), frozen: self.frozen };
        }
        let mut m = Self::new();
        for op in hist { m.step(op); }
        m
    }
    fn enabled(&self, op: &Op) -> bool {
        let unfrozen = |v: u8| !I::CONCURRENT || !self.frozen[v as usize];
        match *op {
            Op::Ins(v, _, _) => unfrozen(v) || I::KIND == Kind::NoIndex, // CRelNoIndex: &mut insert needs no unfrozen state
            Op::InsShared(v, _, _) => unfrozen(v),
            Op::Ina(_, _) => true,
            Op::InaShared(v, _) => unfrozen(v),
            Op::Merge => (0..3).all(|v| unfrozen(v)) || I::KIND == Kind::NoIndex,
            Op::Move(f, t) => (unfrozen(f) && unfrozen(t)) || I::KIND == Kind::NoIndex,
            Op::Freeze(v) | Op::Unfreeze(v) => { let _ = v; true }
        }
    }
    fn apply(&mut self, op: &Op, hist: &[Op], sink: &mut Sink) {
        let name = I::NAME;
        let mut bad = |what: &str, detail: String, sink: &mut Sink| {
            sink.violate(format!("C19|{}|{}", name, what), format!("{} after {:?}: {}", name, hist, detail),
                json!({"type": name, "history": format!("{:?}", hist), "query": what}));
        };
        if let Some((got, want)) = self.step(op) {
            if got != want { bad("insert_if_not_present-return", format!("returned {}, key was {}", got, if want { "absent" } else { "present" }), sink); }
        }
        let keys: Vec<K> = KEYS.get().unwrap().clone();
        // read every version through every read path (concurrent types are read frozen,
        // then put back into the state the history left them in)
        for ver in 0..3 {
            let was_frozen = self.frozen[ver];
            if I::CONCURRENT && !was_frozen { self.v[ver].freeze(); }
            let want = norm(I::KIND, &self.r[ver]);
            let idx = &self.v[ver];
            let vname = ["new", "delta", "total"][ver];
            let probe: Vec<K> = if I::KIND == Kind::NoIndex { vec![0] } else { keys.iter().cloned().chain([999_999]).collect() };
            for k in &probe {
                sink.queries += 1;
                let got = idx.get(*k).map(|mut v| { v.sort(); v });
                // NoIndex types answer Some(empty) for the unit key; compare contents
                let got_n = match got { Some(v) if v.is_empty() && I::KIND == Kind::NoIndex => None, g => g };
                if got_n.as_ref() != want.get(k) { bad("index_get", format!("{}.index_get({}) = {:?}, reference has {:?}", vname, k, got_n, want.get(k)), sink); }
                if let Some(c) = idx.contains(*k) { if c != want.contains_key(k) { bad("contains_key", format!("{}.contains_key({}) = {}", vname, k, c), sink); } }
                if let Some(cg) = idx.c_get(*k) {
                    let cg = cg.map(|mut v| { v.sort(); v });
                    let cg = match cg { Some(v) if v.is_empty() && I::KIND == Kind::NoIndex => None, g => g };
                    if cg.as_ref() != want.get(k) { bad("c_index_get", format!("{}.c_index_get({}) = {:?}, reference has {:?}", vname, k, cg, want.get(k)), sink); }
                }
            }
            sink.queries += 1;
            let (all, dup) = norm_all(I::KIND, &idx.all());
            if all != want { bad("iter_all", format!("{}.iter_all = {:?}, reference = {:?}", vname, all, want), sink); }
            if dup { bad("iter_all-duplicate", format!("{}.iter_all yields an entry twice", vname), sink); }
            if let Some(call) = idx.c_all() {
                let (call, dup) = norm_all(I::KIND, &call);
                if call != want { bad("c_iter_all", format!("{}.c_iter_all = {:?}, reference = {:?}", vname, call, want), sink); }
                if dup { bad("c_iter_all-duplicate", format!("{}.c_iter_all yields an entry twice", vname), sink); }
            }
            if idx.is_empty_hint() && !want.is_empty() { bad("is_empty", format!("{}.is_empty() is true but the index has entries", vname), sink); }
            let _ = idx.len_est();
            if I::CONCURRENT && !was_frozen { self.v[ver].unfreeze(); }
        }
        // combined view total+delta
        let (tf, df) = (self.frozen[2], self.frozen[1]);
        if I::CONCURRENT { if !tf { self.v[2].freeze(); } if !df { self.v[1].freeze(); } }
        if let Some((gets, all, empty)) = I::combined(&self.v[2], &self.v[1], &keys) {
            let want = norm(I::KIND, &ref_union(&self.r[2], &self.r[1]));
            // a key present in both versions of a Full / Set index is legitimately seen twice by the chained view
            let want_multi = { let mut w: BTreeMap<K, Vec<V>> = norm(I::KIND, &self.r[2]); for (k, v) in norm(I::KIND, &self.r[1]) { w.entry(k).or_default().extend(v); } for v in w.values_mut() { v.sort(); } w };
            for (i, g) in gets.iter().enumerate() {
                sink.queries += 1;
                let k = if I::KIND == Kind::NoIndex { 0 } else { keys[i] };
                let g = g.clone().map(|mut v| { v.sort(); v });
                let g = match g { Some(v) if v.is_empty() && I::KIND == Kind::NoIndex => None, g => g };
                if g.as_ref() != want_multi.get(&k) { bad("combined.index_get", format!("combined.index_get({}) = {:?}, total+delta = {:?}", k, g, want_multi.get(&k)), sink); }
            }
            let mut flat: BTreeMap<K, Vec<V>> = BTreeMap::new();
            for (k, vs) in &all { if !vs.is_empty() { flat.entry(*k).or_default().extend(vs.iter().cloned()); } }
            for v in flat.values_mut() { v.sort(); }
            if flat != want_multi { bad("combined.iter_all", format!("combined.iter_all = {:?}, total+delta = {:?}", flat, want_multi), sink); }
            if empty && !want.is_empty() { bad("combined.is_empty", "combined.is_empty() is true but total+delta has entries".into(), sink); }
        }
        if I::CONCURRENT { if !tf { self.v[2].unfreeze(); } if !df { self.v[1].unfreeze(); } }
    }
    fn outcome(&self) -> String { format!("{:?}|{:?}", [norm(I::KIND, &self.r[0]), norm(I::KIND, &self.r[1]), norm(I::KIND, &self.r[2])], self.frozen) }
    fn nontrivial(h: &[Op]) -> bool {
        // a merge or move with content on both sides
        h.iter().any(|o| matches!(o, Op::Merge | Op::Move(..))) && h.iter().filter(|o| matches!(o, Op::Ins(..) | Op::InsShared(..) | Op::Ina(..) | Op::InaShared(..))).count() >= 2
    }
}

fn alphabet<I: Idx>() -> Vec<Op> {
    let mut ops = vec![];
    let nkeys = if I::KIND == Kind::NoIndex { 1 } else { 2 };
    let nvals = if I::KIND == Kind::Full { 1 } else { 2 };
    for ver in 0..3u8 { for k in 0..nkeys { for v in 0..nvals { ops.push(Op::Ins(ver, k, v)); } } }
    if I::CONCURRENT { for ver in [0u8, 2] { for k in 0..nkeys { ops.push(Op::InsShared(ver, k, 1)); } } }
    if I::KIND == Kind::Full {
        for ver in [0u8, 2] { for k in 0..nkeys { ops.push(Op::Ina(ver, k)); if I::CONCURRENT { ops.push(Op::InaShared(ver, k)); } } }
    }
    ops.push(Op::Merge);
    for f in 0..3u8 { for t in 0..3u8 { if f != t { ops.push(Op::Move(f, t)); } } }
    if I::CONCURRENT { for ver in 0..3u8 { ops.push(Op::Freeze(ver)); ops.push(Op::Unfreeze(ver)); } }
    ops
}

fn run<I: Idx>(depth: usize, rep: &mut Report, only: &Option<String>) {
    if only.as_ref().map_or(false, |o| o != I::NAME) { return; }
    let ops = alphabet::<I>();
    explore::<M<I>>(&format!("C19|{}", I::NAME), &ops, depth, rep);
}

/// merges between indices of very different sizes (a merge may take another path when one side is much larger):
/// `to` holds the keys 0..to_n, `from` the keys 0..from_n (shared keys carry the same value on both sides, so the
/// expected result is the union whatever the index type does with duplicates)
fn bulk<I: Idx>(name: &str, full: bool, rep: &mut Report, only: &Option<String>) {
    if only.as_ref().map_or(false, |o| !o.starts_with(name)) { return; }
    for to_n in 0..=3u32 {
        for from_n in 0..=40u32 {
            for disjoint in [false, true] {
                let r = vcore::report::catch(|| {
                    let (mut to, mut from) = (I::new(), I::new());
                    let off = if disjoint { 1000 } else { 0 };
                    for k in 0..to_n { to.insert_mut(k, 100 + k as usize); }
                    for k in 0..from_n { from.insert_mut(k + off, if full || disjoint { 100 + (k + off) as usize } else { 200 + k as usize }); }
                    I::mv(&mut from, &mut to);
                    let mut got: Vec<(K, Vec<V>)> = to.all().into_iter().map(|(k, mut v)| { v.sort(); v.dedup(); (k, v) }).collect();
                    got.sort();
                    let mut want: std::collections::BTreeMap<K, Vec<V>> = Default::default();
                    for k in 0..to_n { want.entry(k).or_default().push(100 + k as usize); }
                    for k in 0..from_n { want.entry(k + off).or_default().push(if full || disjoint { 100 + (k + off) as usize } else { 200 + k as usize }); }
                    let want: Vec<(K, Vec<V>)> = want.into_iter().map(|(k, mut v)| { v.sort(); v.dedup(); (k, v) }).collect();
                    let lookups_ok = want.iter().all(|(k, v)| to.get(*k).map(|mut g| { g.sort(); g.dedup(); g }) == Some(v.clone()));
                    (got, want, lookups_ok, from.all().len())
                });
                rep.states += 1; rep.transitions += 1; rep.executions += 1;
                let case = format!("to holds {} keys, from holds {} keys ({})", to_n, from_n, if disjoint { "disjoint" } else { "overlapping" });
                match r {
                    Err(p) => rep.violate(format!("C19|{}|bulk-merge|panic", name), format!("{}: move_index_contents panicked when {}: {}", name, case, p), json!({"type": name, "bulk": case})),
                    Ok((got, want, lookups_ok, left)) => {
                        if got != want || !lookups_ok { rep.violate(format!("C19|{}|bulk-merge|contents", name), format!("{}: after move_index_contents ({}) the target holds {:?}, expected {:?} (lookups ok: {})", name, case, got.iter().take(6).collect::<Vec<_>>(), want.iter().take(6).collect::<Vec<_>>(), lookups_ok), json!({"type": name, "bulk": case})); }
                        if left != 0 { rep.violate(format!("C19|{}|bulk-merge|source-not-emptied", name), format!("{}: after move_index_contents ({}) the source still holds {} keys", name, case, left), json!({"type": name, "bulk": case})); }
                    }
                }
            }
        }
    }
}

fn main() {
    let start = std::time::Instant::now();
    silence_panics();
    let mut rep = Report::new("C19", "index-histories");
    let thorough = rep.thorough();
    let only: Option<String> = hist::init_replay().and_then(|r| r["type"].as_str().or(r["machine"].as_str()).map(|s| s.trim_start_matches("C19|").to_string()));
    // one rayon worker per explorer thread would make c_ reads cheap, but the explorer threads are
    // plain threads: c_ reads go through the global pool. Fix the process-wide shard count first
    // (4 shards) from inside a one-thread pool, so key placement is the same on every machine.
    let pool1 = ascent::rayon::ThreadPoolBuilder::new().num_threads(1).build().unwrap();
    let shards = pool1.install(|| ascent::internal::shards_count());
    // two keys in the same dashmap shard, or in different ones (second configuration)
    let dm: ascent::dashmap::DashMap<K, (), std::hash::BuildHasherDefault<rustc_hash_shim::FxHasher>> =
        ascent::dashmap::DashMap::with_hasher_and_shard_amount(Default::default(), shards);
    let s0 = dm.determine_map(&1);
    let same = (2..10_000u32).find(|k| dm.determine_map(k) == s0).unwrap();
    let diff = (2..10_000u32).find(|k| dm.determine_map(k) != s0).unwrap();
    let cfg = std::env::var("C19_KEYS").unwrap_or_else(|_| "same".into());
    KEYS.set(if cfg == "same" { vec![1, same] } else { vec![1, diff] }).unwrap();
    rep.extra("shards", shards as u64);
    rep.extra("keys", json!({"config": cfg, "keys": KEYS.get().unwrap()}));

    let d = if thorough { 6 } else { 5 };
    let dc = if thorough { 6 } else { 4 }; // concurrent types: larger alphabet, replay-based forks
    run::<RelIndexType1<K, V>>(d, &mut rep, &only);
    run::<ToRel>(d, &mut rep, &only);
    run::<RelFullIndexType<K, V>>(d, &mut rep, &only);
    run::<LatticeIndexType<K, V>>(d, &mut rep, &only);
    run::<NoIdx>(d + 1, &mut rep, &only);
    run::<CRelIndex<K, V>>(dc, &mut rep, &only);
    run::<CRelFullIndex<K, V>>(dc, &mut rep, &only);
    run::<CLatIndex<K, V>>(dc, &mut rep, &only);
    run::<CRelNoIndex<V>>(dc, &mut rep, &only);
    bulk::<RelIndexType1<K, V>>("RelIndexType1", false, &mut rep, &only);
    bulk::<ToRel>("ToRelIndexType", false, &mut rep, &only);
    bulk::<RelFullIndexType<K, V>>("RelFullIndexType", true, &mut rep, &only);
    bulk::<LatticeIndexType<K, V>>("LatticeIndexType", false, &mut rep, &only);
    rep.rule = "every operation sequence (insert into new/delta/total via both write traits, insert-if-absent, merge_delta_to_total_new_to_delta, move_index_contents in all six directions, freeze/unfreeze) up to the depth bound; after every operation index_get (present/absent keys), iter_all, contains_key, c_ variants, is_empty and the combined total+delta view are compared with a reference multimap; plus, for the serial index types, move_index_contents between indices of 0-3 and 0-40 keys (overlapping and disjoint); non-trivial = history with a merge/move and >= 2 inserts".into();
    let code = rep.finish(start);
    std::process::exit(code);
}

mod rustc_hash_shim {
    // FxHasher re-implemented is not acceptable: use the real crate (dependency of the harness)
    pub use rustc_hash::FxHasher;
}

//! The result file every harness binary writes; the Python driver turns it into
//! evidence, VIOLATION / KNOWN-FINDING lines and replay files.
use serde::Serialize;
use serde_json::Value;
use std::collections::BTreeMap;

#[derive(Serialize, Clone, Debug)]
pub struct Violation {
    /// signature: call site + failure shape; matched against KNOWN_FINDINGS.txt
    pub sig: String,
    pub desc: String,
    /// everything needed to re-run exactly this case
    pub replay: Value,
}

#[derive(Serialize, Default, Debug)]
pub struct Report {
    pub property: String,
    pub tier: String,
    pub part: String,
    /// engine-specific meaning, see DESIGN.md section 9
    pub states: u64,
    pub transitions: u64,
    /// executions of real code (every explored trace is an implementation trace)
    pub executions: u64,
    pub evaluations: u64,
    pub nontrivial: u64,
    pub rule: String,
    pub exhaustive: bool,
    pub caps_hit: Vec<String>,
    pub samples: Vec<Value>,
    pub extras: BTreeMap<String, Value>,
    pub violations: Vec<Violation>,
    pub violation_total: u64,
    pub sig_counts: BTreeMap<String, u64>,
    pub machinery_errors: Vec<String>,
    pub wall_s: f64,
    #[serde(skip)]
    pub max_per_sig: usize,
    #[serde(skip)]
    pub max_samples: usize,
}

impl Report {
    pub fn new(property: &str, part: &str) -> Report {
        let tier = std::env::var("VERIF_TIER").unwrap_or_else(|_| "quick".into());
        Report {
            property: property.into(),
            part: part.into(),
            tier,
            exhaustive: true,
            max_per_sig: 2,
            max_samples: 6,
            ..Default::default()
        }
    }
    pub fn thorough(&self) -> bool { self.tier == "thorough" }

    pub fn violate(&mut self, sig: impl Into<String>, desc: impl Into<String>, replay: Value) {
        let sig = sig.into();
        self.violation_total += 1;
        let c = self.sig_counts.entry(sig.clone()).or_insert(0);
        *c += 1;
        if (*c as usize) <= self.max_per_sig && self.violations.len() < 200 {
            self.violations.push(Violation { sig, desc: desc.into(), replay });
        }
    }
    pub fn sample(&mut self, v: Value) {
        if self.samples.len() < self.max_samples {
            self.samples.push(v);
        }
    }
    pub fn extra(&mut self, k: &str, v: impl Into<Value>) { self.extras.insert(k.into(), v.into()); }
    pub fn add_extra(&mut self, k: &str, n: u64) {
        let cur = self.extras.get(k).and_then(|v| v.as_u64()).unwrap_or(0);
        self.extras.insert(k.into(), Value::from(cur + n));
    }
    pub fn cap(&mut self, what: impl Into<String>) {
        self.exhaustive = false;
        self.caps_hit.push(what.into());
    }
    pub fn machinery_error(&mut self, what: impl Into<String>) { self.machinery_errors.push(what.into()); }

    /// Writes the report to $VERIF_OUT (or stdout) and returns the process exit code
    /// (0 ok / 1 violations / 2 machinery error); the driver decides about known findings.
    pub fn finish(mut self, start: std::time::Instant) -> i32 {
        self.wall_s = start.elapsed().as_secs_f64();
        let s = serde_json::to_string_pretty(&self).unwrap();
        match std::env::var("VERIF_OUT") {
            Ok(p) => std::fs::write(&p, s).expect("write report"),
            Err(_) => println!("{}", s),
        }
        if !self.machinery_errors.is_empty() { 2 } else if self.violation_total > 0 { 1 } else { 0 }
    }
}

/// Runs `f`, converting a panic into Err(message). The default panic hook is silenced
/// while `quiet` is set, so expected-panic probes do not flood stderr.
pub fn catch<R>(f: impl FnOnce() -> R) -> Result<R, String> {
    let r = std::panic::catch_unwind(std::panic::AssertUnwindSafe(f));
    r.map_err(|e| {
        if let Some(s) = e.downcast_ref::<&str>() { s.to_string() }
        else if let Some(s) = e.downcast_ref::<String>() { s.clone() }
        else { "<non-string panic>".into() }
    })
}

pub fn silence_panics() {
    std::panic::set_hook(Box::new(|_| {}));
}

/// `--replay <file>`: the `replay` object of a replay file written by the driver.
pub fn replay_arg() -> Option<Value> {
    let args: Vec<String> = std::env::args().collect();
    let i = args.iter().position(|a| a == "--replay")?;
    let txt = std::fs::read_to_string(&args[i + 1]).expect("read replay file");
    let v: Value = serde_json::from_str(&txt).expect("parse replay file");
    Some(v.get("replay").cloned().unwrap_or(v))
}

/// Normalised panic message for signatures: digits -> '#', bracketed lists dropped, <= 60 chars.
pub fn panic_sig(msg: &str) -> String {
    let mut out = String::new();
    let mut depth = 0;
    let mut last_hash = false;
    for c in msg.chars() {
        match c {
            '[' | '{' => { depth += 1; }
            ']' | '}' => { if depth > 0 { depth -= 1; } }
            _ if depth > 0 => {}
            d if d.is_ascii_digit() => { if !last_hash { out.push('#'); last_hash = true; } continue; }
            '\n' => out.push(' '),
            _ => out.push(c),
        }
        last_hash = false;
    }
    out.trim().chars().take(60).collect()
}

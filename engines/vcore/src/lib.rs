//! Shared pieces of the verification engines: run report, tiny helpers.
pub mod report;
pub use report::{Report, Violation};
pub use serde_json::{json, Value};

//! C02, auxiliary: real `ascent_par!` programs on a two-worker rayon pool under Miri's happens-before data-race
//! detector. The vsched engine explores interleavings at lock granularity, which is sound for data-race-free code;
//! this run checks that premise for the generated parallel code (index inserts, lattice row locks, insertion mutex,
//! boxcar pushes, the parallel eqrel): an unordered pair of conflicting accesses is reported whatever the schedule was.
use ascent::{ascent_par, Dual};

mod plain {
    use super::*;
    ascent_par! {
        pub struct P;
        relation edge(i32, i32);
        relation path(i32, i32);
        relation a(i32);
        relation nr(i32);
        lattice sp(i32, Dual<u32>);
        relation cnt(usize);
        path(x, y) <-- edge(x, y);
        path(x, z) <-- edge(x, y), path(y, z);
        sp(y, Dual(1)) <-- edge(0, y);
        sp(z, Dual(d.0 + 1)) <-- sp(y, d), edge(y, z);
        cnt(n) <-- agg n = ascent::aggregators::count() in path(_, _);
        nr(x) <-- a(x), !path(x, x);
    }
}
mod irp {
    use super::*;
    ascent_par! {
        #![inter_rule_parallelism]
        pub struct P;
        relation e(i32, i32, u32);
        lattice la(i32, Dual<u32>);
        lattice lb(i32, Dual<u32>);
        relation both(i32);
        la(y, Dual(*w)) <-- e(0, y, w);
        lb(z, Dual(d.0 + w)) <-- la(y, d), e(y, z, w);
        la(z, Dual(d.0 + w)) <-- lb(y, d), e(y, z, w);
        both(x) <-- la(x, _), lb(x, _);
    }
}
mod eq {
    use super::*;
    ascent_par! {
        pub struct P;
        relation s(i32, i32);
        #[ds(ascent_byods_rels::eqrel)]
        relation r(i32, i32);
        relation o(i32, i32);
        r(x, y) <-- s(x, y);
        o(x, y) <-- r(x, y);
    }
}

fn main() {
    let pool = ascent::rayon::ThreadPoolBuilder::new().num_threads(2).build().unwrap();
    pool.install(|| {
        let mut p = plain::P::default();
        for t in [(0, 1), (0, 2), (1, 3), (2, 3), (3, 0)] { p.edge.push(t); }
        for x in [0, 7] { p.a.push((x,)); }
        p.run();
        assert_eq!(p.path.len(), 16);
        assert_eq!(p.sp.len(), 4);
        // run; add; run
        p.edge.push((3, 4));
        p.run();
        assert_eq!(p.path.len(), 20);

        // many rows improving the same keys in the same iteration: both workers reach the same lattice rows
        let mut q = irp::P::default();
        for y in 1..10 { q.e.push((0, y, (y % 5) as u32 + 1)); q.e.push((y, 99, (y % 7) as u32)); q.e.push((y, 98, (y % 3) as u32)); }
        q.e.push((99, 98, 1)); q.e.push((98, 99, 1));
        q.run();
        assert!(q.la.len() >= 9 && q.lb.len() >= 2);

        let mut r = eq::P::default();
        for t in [(0, 1), (0, 2), (3, 4), (3, 1)] { r.s.push(t); }
        r.run();
        assert_eq!(r.o.len(), 25);
    });
    println!("race: ok");
}

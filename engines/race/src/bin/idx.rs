//! C19, auxiliary: the concurrent write paths of the index types, driven by two free-running OS threads under
//! Miri's data-race detector. vsched switches threads at lock acquisitions only, which is sound for data-race-free
//! code; this run discharges that premise for the `&self` insert paths: any pair of conflicting accesses that is not
//! ordered by synchronisation is reported by Miri whatever the actual interleaving was.
use ascent::internal::{CRelFullIndexWrite, CRelIndexWrite, Freezable};

fn main() {
    // CRelIndex: multimap key -> values
    {
        let ind: ascent::internal::CRelIndex<(i32,), (i32,)> = Default::default();
        std::thread::scope(|s| {
            for t in 0..2 { let ind = &ind; s.spawn(move || { for i in 0..3 { CRelIndexWrite::index_insert(ind, (i % 2,), (10 * t + i,)); } }); }
        });
        let mut ind = ind;
        ind.freeze();
    }
    // CRelNoIndex
    {
        let ind: ascent::internal::CRelNoIndex<(i32,)> = Default::default();
        std::thread::scope(|s| {
            for t in 0..2 { let ind = &ind; s.spawn(move || { for i in 0..3 { CRelIndexWrite::index_insert(ind, (), (10 * t + i,)); } }); }
        });
        let mut ind = ind;
        ind.freeze();
    }
    // CLatIndex
    {
        let ind: ascent::internal::CLatIndex<(i32,), usize> = Default::default();
        std::thread::scope(|s| {
            for t in 0..2usize { let ind = &ind; s.spawn(move || { for i in 0..3usize { CRelIndexWrite::index_insert(ind, ((i % 2) as i32,), 10 * t + i); } }); }
        });
        let mut ind = ind;
        ind.freeze();
    }
    // CRelFullIndex: insert-if-absent, one winner per key
    {
        let ind: ascent::internal::CRelFullIndex<(i32,), usize> = Default::default();
        let wins = std::sync::atomic::AtomicUsize::new(0);
        std::thread::scope(|s| {
            for t in 0..2usize { let (ind, wins) = (&ind, &wins); s.spawn(move || { for i in 0..2 { if CRelFullIndexWrite::insert_if_not_present(ind, &(i,), t) { wins.fetch_add(1, std::sync::atomic::Ordering::SeqCst); } } }); }
        });
        assert_eq!(wins.load(std::sync::atomic::Ordering::SeqCst), 2, "CRelFullIndex: not exactly one winner per key");
    }
    // indices created under a one-worker pool (or outside any pool) and filled by the workers of a two-worker pool:
    // the worker index a structure shards by need not be smaller than the number of shards it was created with
    {
        let small = ascent::rayon::ThreadPoolBuilder::new().num_threads(1).build().unwrap();
        let big = ascent::rayon::ThreadPoolBuilder::new().num_threads(2).build().unwrap();
        let no: ascent::internal::CRelNoIndex<(i32,)> = small.install(Default::default);
        let rel: ascent::internal::CRelIndex<(i32,), (i32,)> = small.install(Default::default);
        let lat: ascent::internal::CLatIndex<(i32,), usize> = small.install(Default::default);
        big.install(|| {
            ascent::rayon::join(
                || { for i in 0..3 { CRelIndexWrite::index_insert(&no, (), (i,)); CRelIndexWrite::index_insert(&rel, (i % 2,), (i,)); CRelIndexWrite::index_insert(&lat, (i % 2,), i as usize); } },
                || { for i in 0..3 { CRelIndexWrite::index_insert(&no, (), (10 + i,)); CRelIndexWrite::index_insert(&rel, (i % 2,), (10 + i,)); CRelIndexWrite::index_insert(&lat, (i % 2,), 10 + i as usize); } },
            );
        });
        let (mut no, mut rel, mut lat) = (no, rel, lat);
        no.freeze(); rel.freeze(); lat.freeze();
    }
    println!("race: ok");
}

#!/usr/bin/env python3
"""compact summary of the violation signatures of the last run of a check: tools/sigs.py C11 [n_examples]"""
import json, glob, collections, sys, re
P = sys.argv[1]
nex = int(sys.argv[2]) if len(sys.argv) > 2 else 3
c = collections.Counter(); ex = {}
for f in glob.glob('/verif/build/out/%s.*.json' % P):
    r = json.load(open(f))
    for k, v in r.get('sig_counts', {}).items():
        g = re.sub(r'-(bound[01]+|const-first|const-second|first-of-join|repeated-var|self-join)\b', '-*', k)
        c[g] += v
    for v in r.get('violations', []):
        g = re.sub(r'-(bound[01]+|const-first|const-second|first-of-join|repeated-var|self-join)\b', '-*', v['sig'])
        if g not in ex or len(v['desc']) < len(ex[g]): ex[g] = v['desc']
for k, v in sorted(c.items()): print(v, k)
print()
for k in sorted(ex)[:nex]:
    d = ex[k]
    i = d.find(' -- program:')
    print('EX', k, '::', d[:i][:400] if i > 0 else d[:400])

#!/bin/bash
# tools/seedregress.sh [name-pattern]: applies every kept seeded change (seeded/<id>/patch.diff) to /repo in turn, runs the quick
# check of the property it breaks, reverts; writes seeded/REGRESSION.txt (expected: exit 1 = detected for every change except
# the ones whose meta.json says NOT DETECTED).
cd /verif
pat="${1:-.}"
out=seeded/REGRESSION.txt
[ "$pat" = "." ] && : > $out
for d in seeded/*/; do
  name=$(basename $d)
  echo "$name" | grep -q -E "$pat" || continue
  prop=$(python3 -c "import json;m=json.load(open('$d/meta.json'));print(m.get('checked_by', m['breaks_property']))")
  if ! git -C /repo apply --check /verif/$d/patch.diff 2>/dev/null; then echo "$name $prop PATCH-DOES-NOT-APPLY (written against an older commit)" | tee -a $out; continue; fi
  git -C /repo apply /verif/$d/patch.diff
  t0=$(date +%s)
  timeout 2400 ./check $prop --tier quick > build/seedreg.txt 2>&1; code=$?
  t1=$(date +%s)
  git -C /repo checkout -- .; rm -f /repo/ascent_macro/examples/scratchpad.rs
  first=$(grep -A1 "^VIOLATION" build/seedreg.txt | grep -v "^VIOLATION" | head -1 | cut -c1-160)
  echo "$name $prop exit=$code wall=$((t1-t0))s $first" | tee -a $out
done

#!/bin/bash
# tools/seedconfirm.sh <worktree-dir>: confirms a seeded change in its scratch worktree:
# suite passes with it, demo fails with it and passes without it.
d="$1"; cd "$d" || exit 2
git checkout -q -- . 2>/dev/null; git apply seed/patch.diff || { echo "PATCH DOES NOT APPLY"; exit 2; }
rm -f ascent_macro/examples/scratchpad.rs
t=$(cargo test --workspace --offline 2>&1 | grep -E "^test result" | awk '{p+=$4; f+=$6} END {print p" passed "f" failed"}')
echo "suite with change: $t"
run_demo() { (cd seed/demo && if grep -q "\[\[test\]\]\|#\[test\]" -r . 2>/dev/null && ! [ -f src/main.rs ]; then timeout 900 cargo test --offline >/dev/null 2>&1; else timeout 900 cargo run --offline >/dev/null 2>&1; fi; echo $?); }
w=$(run_demo); echo "demo with change: exit $w"
git apply -R seed/patch.diff
wo=$(run_demo); echo "demo without change: exit $wo"
git apply seed/patch.diff
rm -f ascent_macro/examples/scratchpad.rs

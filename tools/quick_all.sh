#!/bin/bash
# tools/quick_all.sh: every quick check once on the current tree (log: build/quick.log)
cd /verif; rm -f build/quick.log
for c in C01 C02 C03 C04 C05 C06 C07 C08 C09 C10 C11 C12 C13 C14 C15 C16 C17 C18 C19 C20; do
  t0=$(date +%s); timeout 2400 ./check $c --tier quick > build/quick_$c.txt 2>&1; code=$?; t1=$(date +%s)
  echo "$c exit=$code wall=$((t1-t0))s $(grep -c '^VIOLATION' build/quick_$c.txt) violations $(grep -c '^KNOWN-FINDING' build/quick_$c.txt) known" >> build/quick.log
done

#!/bin/bash
# tools/thorough_all.sh <ids...>: runs the thorough tier of the given checks one after the other (log: build/thorough.log)
cd /verif
for c in "$@"; do
  while [ -e /tmp/seed/REPO_BUSY ]; do sleep 10; done
  touch /tmp/seed/THOROUGH_RUNNING
  t0=$(date +%s)
  timeout 10800 ./check $c --tier thorough > build/thorough_$c.txt 2>&1; code=$?
  t1=$(date +%s)
  rm -f /tmp/seed/THOROUGH_RUNNING
  sleep 3
  echo "$c exit=$code wall=$((t1-t0))s $(tail -1 build/thorough_$c.txt | cut -c1-220)" >> build/thorough.log
done
echo "batch done: $*" >> build/thorough.log

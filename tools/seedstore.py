#!/usr/bin/env python3
"""tools/seedstore.py <worktree> <name> <property> <json-file-with-change/needs/detected_by>: keeps a confirmed seeded change under seeded/<name>/"""
import json, os, shutil, sys, subprocess
wt, name, prop, metaf = sys.argv[1:5]
extra = json.load(open(metaf))
src = wt + "/seed"; dst = "/verif/seeded/" + name
if os.path.exists(dst): shutil.rmtree(dst)
os.makedirs(dst)
shutil.copy(src + "/patch.diff", dst + "/patch.diff")
shutil.copytree(src + "/demo", dst + "/demo", ignore=shutil.ignore_patterns("target", "Cargo.lock"))
if os.path.exists(src + "/README.md"): shutil.copy(src + "/README.md", dst + "/README.agent.md")
head = subprocess.run(["git", "-C", wt, "rev-parse", "--short", "HEAD"], capture_output=True, text=True).stdout.strip()
meta = {"id": name, "breaks_property": prop}
meta.update(extra)
meta.update({"origin": "written by an independent sub-agent that saw only the property text and a scratch worktree of /repo at commit " + head,
  "confirmed": {"pinned_suite_with_change": "61 unit tests + 8 doc tests pass (cargo test --workspace --offline in the scratch worktree)",
                "demo_with_change": "fails (non-zero exit)", "demo_without_change": "exit 0",
                "how": "tools/seedconfirm.sh <worktree>; the path dependencies in the demo's Cargo.toml point to the scratch worktree it was written in"},
  "checks_run": "tools/seedrun.sh <patch> <check ids> (git -C /repo apply, quick checks, git -C /repo checkout -- .)"})
json.dump(meta, open(dst + "/meta.json", "w"), indent=1)
print("stored", dst)

#!/bin/bash
# tools/seedrun.sh <patch> <check id>...: applies a seeded change to /repo, runs the quick checks, reverts.
p="$1"; shift
# /repo is shared with background thorough runs: take turns
touch /tmp/seed/REPO_BUSY
while [ -e /tmp/seed/THOROUGH_RUNNING ]; do sleep 10; done
trap 'git -C /repo checkout -- .; [ -n "$SEED_HOLD" ] || rm -f /tmp/seed/REPO_BUSY' EXIT
git -C /repo apply "$p" || { echo "PATCH DOES NOT APPLY to /repo"; rm -f /tmp/seed/REPO_BUSY; exit 2; }
for c in "$@"; do
  out=$(cd /verif && timeout 1500 ./check $c 2>&1); code=$?
  echo "== $c exit=$code"; echo "$out" | grep -E "^VIOLATION|^KNOWN|MACHINERY" | head -3 | cut -c1-220; echo "$out" | grep -A1 "^VIOLATION" | grep -v "^VIOLATION" | head -2 | cut -c1-300
done
git -C /repo checkout -- .
rm -f /repo/ascent_macro/examples/scratchpad.rs
[ -n "$SEED_HOLD" ] || rm -f /tmp/seed/REPO_BUSY

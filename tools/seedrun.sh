#!/bin/bash
# tools/seedrun.sh <patch> <check id>...: applies a seeded change to /repo, runs the quick checks, reverts.
p="$1"; shift
git -C /repo apply "$p" || { echo "PATCH DOES NOT APPLY to /repo"; exit 2; }
for c in "$@"; do
  out=$(cd /verif && timeout 1500 ./check $c 2>&1); code=$?
  echo "== $c exit=$code"; echo "$out" | grep -E "^VIOLATION|^KNOWN|MACHINERY" | head -3 | cut -c1-220; echo "$out" | grep -A1 "^VIOLATION" | grep -v "^VIOLATION" | head -2 | cut -c1-300
done
git -C /repo checkout -- .
rm -f /repo/ascent_macro/examples/scratchpad.rs
